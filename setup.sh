#!/bin/sh
# Offline setup: parse every specification with SANY and smoke-test the harness imports.
set -e
cd "$(dirname "$0")"
mkdir -p .work evidence
cd spec
for f in *.tla; do
  case "$f" in *Ind.tla) continue ;; esac   # Apalache-only wrappers (EXTENDS Apalache): type-checked by apalache-mc in the check itself
  java -cp /opt/veriftools/tla/tla2tools.jar:/opt/veriftools/tla/CommunityModules-deps.jar tla2sany.SANY "$f" > ../.work/sany.log 2>&1 || { cat ../.work/sany.log; echo "SANY failed on $f"; exit 1; }
done
cd ..
PYTHONPATH=/repo:$(pwd) PYTHONWARNINGS=ignore /venv/bin/python -c "import harness.common, harness.oracle, harness.corpus; import rdkit; print('harness ok')"
