CONSTANTS
  Mols <- MCMols
  Key <- MCKey
  Can <- MCCan
  TotalSortKey = TRUE
  MaxLen = 4
SPECIFICATION Spec
INVARIANT Idempotent
INVARIANT PermutationInvariant
CHECK_DEADLOCK FALSE
