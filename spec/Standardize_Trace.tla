--------------------------- MODULE Standardize_Trace ---------------------------
(* C20: calls of the real MoleculeStandardizer. Each event carries the oracle's   *)
(* composition (elements incl. H, charge) of input and output, whether the output *)
(* parses, whether the call raised, and the same facts for a second application   *)
(* to the first output.                                                           *)
EXTENDS Integers, Sequences, FiniteSets, TLC, Json, IOUtils

Log == ndJsonDeserialize(IOEnv.TRACE_FILE)
VARIABLES i, bad
tvars == <<i, bad>>
Fails(e, clause, ok) == IF ok THEN <<>> ELSE << <<e.id, clause>> >>
V(d, k) == IF k \in DOMAIN d THEN d[k] ELSE 0
SameComp(a, b) == \A k \in DOMAIN a \cup DOMAIN b : V(a, k) = V(b, k)

Judge(e) ==
       Fails(e, "ReturnsSmiles", e.raised = "" /\ e.out_parses)
    \o (IF e.raised = "" /\ e.out_parses
        THEN Fails(e, "AtomsConserved", SameComp(e.in_comp, e.out_comp) /\ e.in_q = e.out_q)
             \o Fails(e, "SecondApplicationReturnsSmiles", e.raised2 = "" /\ e.out2_parses)
             \o Fails(e, "Idempotent", (e.raised2 = "" /\ e.out2_parses) => e.out2_same)
        ELSE <<>>)

TInit == i = 1 /\ bad = <<>> /\ TLCSet(1, <<>>)
TNext == /\ i <= Len(Log)
         /\ i' = i + 1
         /\ bad' = bad \o Judge(Log[i])
         /\ TLCSet(1, bad')
TSpec == TInit /\ [][TNext]_tvars
Post == JsonSerialize(IOEnv.VERDICT_FILE,
          [consumed |-> TLCGet("stats").diameter - 1, total |-> Len(Log), bad |-> TLCGet(1)])
=============================================================================
