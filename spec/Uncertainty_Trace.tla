-------------------------- MODULE Uncertainty_Trace --------------------------
(* Conformance of GraphMissingUncertainty.fit and RefinementUncertainty.fit with   *)
(* Uncertainty: "certainty" events are lists of analysis results (TLC-enumerated    *)
(* cases of MC_Uncertainty and random longer lists) sent through the real class,    *)
(* "refine" events are condition families sent through RefinementUncertainty.       *)
(* Every event is judged (total verdict).                                           *)
EXTENDS Uncertainty, Json, IOUtils

Log == ndJsonDeserialize(IOEnv.TRACE_FILE)
VARIABLES i, bad
tvars == <<i, bad>>
Fails(e, clause, ok) == IF ok THEN <<>> ELSE << <<e.id, clause>> >>

JudgeCertainty(e) ==
    LET ok == e.raised = "" /\ Len(e.out) = Len(e.entries)
    IN   Fails(e, "OneLabelPerEntry", ok)
      \o (IF ok THEN
               Fails(e, "LabelIsTheEntrysOwn", \A k \in DOMAIN e.entries : e.out[k] = Certain(e.entries[k], e.th))
            \o Fails(e, "LabelAsModelled", \A k \in DOMAIN e.entries : e.out[k] = Fit(e.entries, e.th)[k])
            \o Fails(e, "FailedJobIsUncertain", \A k \in DOMAIN e.entries : FailedJob(e.entries[k]) => ~e.out[k])
            \o Fails(e, "OtherFieldsUntouched", e.untouched)
          ELSE <<>>)

JudgeRefine(e) ==
    LET ok == e.raised = "" /\ Len(e.out) = Len(e.ids)
    IN   Fails(e, "OneEntryPerId", ok)
      \o (IF ok THEN
               Fails(e, "IdsInOrder", \A k \in DOMAIN e.ids : e.out[k].id = e.ids[k])
            \o Fails(e, "SourceAsModelled", \A k \in DOMAIN e.ids : e.out[k].src = Source(e.conds, e.ids[k], e.num))
            \o Fails(e, "SmilesFromSource",
                     \A k \in DOMAIN e.ids : e.out[k].tok = Refined(e.conds, e.final, e.ids[k], e.num))
          ELSE <<>>)

Judge(e) == CASE e.ev = "certainty" -> JudgeCertainty(e)
              [] e.ev = "refine" -> JudgeRefine(e)
              [] OTHER -> << <<e.id, "UnknownEvent">> >>
TInit == i = 1 /\ bad = <<>> /\ TLCSet(1, <<>>)
TNext == /\ i <= Len(Log)
         /\ i' = i + 1
         /\ bad' = bad \o Judge(Log[i])
         /\ TLCSet(1, bad')
TSpec == TInit /\ [][TNext]_tvars
Post == JsonSerialize(IOEnv.VERDICT_FILE,
          [consumed |-> TLCGet("stats").diameter - 1, total |-> Len(Log), bad |-> TLCGet(1)])
=============================================================================
