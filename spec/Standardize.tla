----------------------------- MODULE Standardize -----------------------------
(***************************************************************************)
(* MoleculeStandardizer.__call__ (SynChemImputer/molecule_standardizer.py), *)
(* C20, as an iterative rewriting system.                                   *)
(*                                                                         *)
(* The molecule is abstracted to the multiset of its redexes (enol /        *)
(* hemiketal groups found by the functional-group query). A redex is        *)
(* `good` when the bond edit at its atoms yields a valid molecule with the  *)
(* same atoms (e.g. a neutral enol), `bad` when it cannot (enolate, carbon  *)
(* with an alkoxy group, ...): the rewrite then returns an ERROR STRING.    *)
(* After every successful rewrite the output is re-canonicalised, so atom   *)
(* indices recorded before it may point anywhere (Renumber).                *)
(*                                                                         *)
(*   FixpointLoop = FALSE  (as built) iterate over the group list taken at  *)
(*                         the start; indices of later groups are stale     *)
(*   FixpointLoop = TRUE   re-query after every rewrite and stop when no    *)
(*                         rewritable group is left                         *)
(*   CheckRewriteResult    TRUE: a rewrite whose result does not parse (or  *)
(*                         changes the atoms) is discarded                  *)
(***************************************************************************)
EXTENDS Integers, Sequences, FiniteSets, TLC

CONSTANTS FixpointLoop, CheckRewriteResult, MaxRedexes

Kinds == {"good", "bad"}

VARIABLES
    mol,       \* "ok" (a valid molecule with the input's atoms), "error" (an error message in
               \* place of a SMILES), "changed" (valid, but atoms differ from the input)
    redexes,   \* multiset of redexes still present in the current molecule: [good, bad]
    work,      \* as built: the list taken at the start, each entry [kind, stale]
    pass,      \* 1 = first application, 2 = second application on the output of the first
    first,     \* outcome of the first application: [mol, redexes]
    pc
vars == <<mol, redexes, work, pass, first, pc>>

Bag(g, b) == [good |-> g, bad |-> b]

StartWork(r) == [j \in 1..(r.good + r.bad) |-> [kind |-> IF j <= r.good THEN "good" ELSE "bad", stale |-> FALSE]]

Init == /\ mol = "ok"
        /\ redexes \in {Bag(g, b) : g \in 0..MaxRedexes, b \in 0..MaxRedexes}
        /\ redexes.good + redexes.bad <= MaxRedexes
        /\ work = StartWork(redexes)
        /\ pass = 1 /\ first = <<>> /\ pc = "loop"

\* one rewrite attempt on the current molecule for a redex of kind k whose recorded indices
\* are stale or not. Outcomes: the new (mol, redexes).
Attempt(k, stale) ==
    IF mol # "ok" THEN {<<"error", redexes>>}                       \* an error string is fed back to RDKit
    ELSE IF stale THEN                                               \* indices point at other atoms
        {<<"error", redexes>>, <<"changed", redexes>>, <<"ok", redexes>>}
    ELSE IF k = "good" THEN {<<"ok", [redexes EXCEPT !.good = @ - 1]>>}
    ELSE {<<"error", redexes>>}

Accept(res) ==
    IF CheckRewriteResult /\ res[1] # "ok" THEN <<mol, redexes>> ELSE res

StepAsBuilt ==
    /\ ~FixpointLoop /\ pc = "loop" /\ work # <<>>
    /\ \E res \in Attempt(Head(work).kind, Head(work).stale) :
         LET acc == Accept(res) IN
         /\ mol' = acc[1] /\ redexes' = acc[2]
         \* a successful rewrite renumbers the atoms: the remaining recorded groups go stale
         /\ work' = IF acc[1] = "ok" /\ acc[2] # redexes
                    THEN [j \in 1..(Len(work) - 1) |-> [Tail(work)[j] EXCEPT !.stale = TRUE]]
                    ELSE Tail(work)
    /\ UNCHANGED <<pass, first, pc>>

StepFixpoint ==
    /\ FixpointLoop /\ pc = "loop"
    /\ IF redexes.good > 0 /\ mol = "ok"
       THEN \E res \in Attempt("good", FALSE) :
              LET acc == Accept(res) IN mol' = acc[1] /\ redexes' = acc[2]
       ELSE UNCHANGED <<mol, redexes>>
    /\ pc' = IF redexes.good > 0 /\ mol = "ok" THEN "loop" ELSE "end"
    /\ UNCHANGED <<work, pass, first>>

EndAsBuilt == ~FixpointLoop /\ pc = "loop" /\ work = <<>> /\ pc' = "end"
              /\ UNCHANGED <<mol, redexes, work, pass, first>>

\* Chem.CanonSmiles(result); then the function is applied again to its own output
Finish ==
    /\ pc = "end"
    /\ IF pass = 1 /\ mol = "ok"
       THEN /\ first' = <<mol, redexes>> /\ pass' = 2 /\ work' = StartWork(redexes) /\ pc' = "loop"
            /\ UNCHANGED <<mol, redexes>>
       ELSE /\ pc' = "done" /\ UNCHANGED <<mol, redexes, work, pass, first>>

Next == StepAsBuilt \/ StepFixpoint \/ EndAsBuilt \/ Finish
Spec == Init /\ [][Next]_vars

Done == pc = "done"
ReturnsSmiles == Done => mol # "error"
AtomsConserved == Done => mol # "changed"
Idempotent == Done /\ pass = 2 => <<mol, redexes>> = first
NoIntermediateError == mol # "error"
=============================================================================
