---------------------------- MODULE StatsMerge_Trace ----------------------------
(* The real merge_stats applied to every batch sequence enumerated by TLC from      *)
(* StatsMerge.tla: the accumulated dictionary must hold the sums of the parts.      *)
EXTENDS Integers, Sequences, FiniteSets, TLC, Json, IOUtils
Log == ndJsonDeserialize(IOEnv.TRACE_FILE)
VARIABLES i, bad
tvars == <<i, bad>>
V(d, k) == IF k \in DOMAIN d THEN d[k] ELSE 0
RECURSIVE SumKey(_, _, _)
SumKey(bs, k, n) == IF n = 0 THEN 0 ELSE V(bs[n], k) + SumKey(bs, k, n - 1)
AllKeys(e) == DOMAIN e.result \cup UNION {DOMAIN e.batches[j] : j \in 1..Len(e.batches)}
Judge(e) == IF \A k \in AllKeys(e) : V(e.result, k) = SumKey(e.batches, k, Len(e.batches))
            THEN <<>> ELSE << <<e.id, "TotalsAreSums">> >>
TInit == i = 1 /\ bad = <<>> /\ TLCSet(1, <<>>)
TNext == /\ i <= Len(Log) /\ i' = i + 1 /\ bad' = bad \o Judge(Log[i]) /\ TLCSet(1, bad')
TSpec == TInit /\ [][TNext]_tvars
Post == JsonSerialize(IOEnv.VERDICT_FILE,
          [consumed |-> TLCGet("stats").diameter - 1, total |-> Len(Log), bad |-> TLCGet(1)])
=============================================================================
