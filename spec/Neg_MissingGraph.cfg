CONSTANTS
  Labels = {"C", "O", "N"}
  MaxN = 5
  Mutation = "one_pair_per_atom"
SPECIFICATION Spec
INVARIANT InvReassembles
INVARIANT InvConserves
INVARIANT InvAttached
CHECK_DEADLOCK FALSE
