CONSTANTS
  ValenceGuard = FALSE
SPECIFICATION Spec
INVARIANT InvSemPreserved
CHECK_DEADLOCK FALSE
