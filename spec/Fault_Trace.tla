------------------------------ MODULE Fault_Trace ------------------------------
(* C11: real pipeline runs with faults injected into MCS-stage jobs (fault plans  *)
(* enumerated from Faults.tla's fault space) compared with the fault-free run of  *)
(* the same batch. "ref" events bind the reference rows; "faulted" events carry   *)
(* the rows of a run, the positions whose jobs were hit, and are judged row by    *)
(* row with the clauses of the property.                                          *)
EXTENDS API, Json, IOUtils

Log == ndJsonDeserialize(IOEnv.TRACE_FILE)
VARIABLES i, ref, bad
tvars == <<i, ref, bad>>
Fails(e, pos, clause, ok) == IF ok THEN <<>> ELSE << <<e.id, pos, clause>> >>

SameRow(x, r) == /\ x.reaction = r.reaction /\ x.solved = r.solved /\ x.by = r.by
                 /\ x.conf_raw = r.conf_raw /\ x.issue = r.issue /\ x.rules = r.rules

JudgeRow(e, pos) ==
    LET x == e.rows[pos] IN
       Fails(e, pos, "SolvedStillBalanced", x.solved => FBalanced(x.out))
    \o Fails(e, pos, "DeclinedUnchanged", ~x.solved => x.reaction = x.input_reaction)
    \o Fails(e, pos, "DeclinedHasReason", ~x.solved => x.issue \notin {"", Absent})
    \o Fails(e, pos, "InputEchoKept", x.input_reaction = ref[pos].input_reaction)
    \o Fails(e, pos, "UnaffectedRowAsWithoutFaults", (\A a \in 1..Len(e.affected) : e.affected[a] # pos) => SameRow(x, ref[pos]))

JudgeRun(e) ==
       Fails(e, 0, "RunDoesNotRaise", e.raised = "")
    \o Fails(e, 0, "NoRowLost", Len(e.rows) = Len(ref))
    \o (IF Len(e.rows) = Len(ref)
        THEN LET F[j \in 0..Len(e.rows)] == IF j = 0 THEN <<>> ELSE F[j - 1] \o JudgeRow(e, j)
             IN F[Len(e.rows)]
        ELSE <<>>)

TInit == i = 1 /\ ref = <<>> /\ bad = <<>> /\ TLCSet(1, <<>>)
TNext == /\ i <= Len(Log)
         /\ i' = i + 1
         /\ LET e == Log[i] IN
            IF e.ev = "ref" THEN ref' = e.rows /\ bad' = bad
            ELSE ref' = ref /\ bad' = bad \o JudgeRun(e)
         /\ TLCSet(1, bad')
TSpec == TInit /\ [][TNext]_tvars
Post == JsonSerialize(IOEnv.VERDICT_FILE,
          [consumed |-> TLCGet("stats").diameter - 1, total |-> Len(Log), bad |-> TLCGet(1)])
=============================================================================
