---------------------------- MODULE RuleDB_Trace ----------------------------
(* Validates operation logs recorded from the real RuleImputeManager against *)
(* RuleDB: the specification state is stepped with the logged arguments and  *)
(* compared with the logged database after every call. Total verdicts: on a  *)
(* mismatch the clause is recorded and the model state is resynchronised     *)
(* with the observed database so that the rest of the log is still checked.  *)
EXTENDS RuleDB, Composition, Json, IOUtils

Log == ndJsonDeserialize(IOEnv.TRACE_FILE)

VARIABLES i, db, bad
tvars == <<i, db, bad>>

Keys2(seq) == [j \in 1..Len(seq) |-> [formula |-> seq[j].formula, smiles |-> seq[j].smiles]]
Fails(e, clause, ok) == IF ok THEN <<>> ELSE << <<e.tid, e.step, clause>> >>

\* recorded Composition of the entry that an accepted add appended: true
\* composition of its SMILES with the charge key always present
CompOk(ent) == /\ QK \in DOMAIN ent.comp
               /\ SameComp(ent.comp, DecomposeSpec(ent.atoms))
               /\ \A k \in DOMAIN ent.comp : k = QK \/ ent.comp[k] # 0

JudgeAdd(e) ==
    LET exp == AddResult(db, e, e.valid)
        acc == CanAdd(db, e, e.valid)
    IN   Fails(e, "AddResult", Keys2(e.after) = exp)
      \o Fails(e, "RejectionReported", e.raised = ~acc)
      \o Fails(e, "RejectedLeavesDatabaseUnchanged", e.raised => Keys2(e.after) = db)
      \o Fails(e, "NoNewClash", Clashes(Keys2(e.after)) <= Clashes(db))
      \o Fails(e, "CompositionTrue",
               (~e.raised /\ Len(e.after) > 0) => CompOk(e.after[Len(e.after)]))

JudgeBulk(e) ==
    LET res == AddAll(db, e.entries) IN
         Fails(e, "BulkResult", Keys2(e.after) = res[1])
      \o Fails(e, "BulkRejectedList", ("no_rejected_list" \in DOMAIN e) \/ Keys2(e.rejected) = res[2])
      \o Fails(e, "NoNewClash", Clashes(Keys2(e.after)) <= Clashes(db))
      \o Fails(e, "CompositionTrue",
               \A j \in 1..Len(e.after) : j > Len(db) => CompOk(e.after[j]))

JudgeRemove(e) ==
         Fails(e, "RemoveResult", Keys2(e.after) = RemoveResult(db, e.formula))
      \o Fails(e, "RemoveOnlyNamed",
               Keys2(e.after) = db \/ (HasFormula(db, e.formula) /\ RemovedOne(db, Keys2(e.after))))

Crashed(e) == IF "crashed" \in DOMAIN e /\ e.crashed # "" THEN << <<e.tid, e.step, "OperationDoesNotCrash">> >> ELSE <<>>

Judge(e) == Crashed(e) \o
    CASE e.ev = "begin"  -> <<>>
      [] e.ev = "add"    -> JudgeAdd(e)
      [] e.ev = "bulk"   -> JudgeBulk(e)
      [] e.ev = "remove" -> JudgeRemove(e)
      [] OTHER -> << <<e.tid, e.step, "UnknownEvent">> >>

TInit == i = 1 /\ db = <<>> /\ bad = <<>> /\ TLCSet(1, <<>>)
TNext == /\ i <= Len(Log)
         /\ i' = i + 1
         /\ bad' = bad \o Judge(Log[i])
         /\ db' = Keys2(Log[i].after)      \* follow the implementation (resync)
         /\ TLCSet(1, bad')
TSpec == TInit /\ [][TNext]_tvars
Post == JsonSerialize(IOEnv.VERDICT_FILE,
          [consumed |-> TLCGet("stats").diameter - 1, total |-> Len(Log), bad |-> TLCGet(1)])
=============================================================================
