CONSTANTS
  Batches = {"b1", "b2"}
  Cfgs = {"t0", "t5"}
  MaxRuns = 3
  MaxBatchesPerRun = 2
  KeyIncludesConfig = TRUE
  AtomicWrite = TRUE
  BatchKey <- IdKey
  TolerantLoad = TRUE
SPECIFICATION Spec
INVARIANT CacheTransparent
INVARIANT FinalFilesWhole
INVARIANT EntriesMatchKeys
CHECK_DEADLOCK FALSE
