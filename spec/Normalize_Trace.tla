--------------------------- MODULE Normalize_Trace ---------------------------
(* C17: real normalize_smiles / wc_similarity / benchmark results.              *)
(*  "family": one stereo-free reaction and variants of it (molecules permuted    *)
(*            within a side, every molecule respelled); members carry the normal *)
(*            form the tool produced, whether normalising it again changes it,   *)
(*            and the oracle's molecule identities per side.                     *)
(*  "sim":    similarities in millionths for (a,b), (b,a) and (a, variant of a). *)
(*  "bench":  counts of the benchmark command on a file whose expected reaction  *)
(*            is a permuted respelling of the result.                            *)
EXTENDS Integers, Sequences, FiniteSets, TLC, Json, IOUtils

Log == ndJsonDeserialize(IOEnv.TRACE_FILE)
VARIABLES i, bad
tvars == <<i, bad>>
Fails(e, clause, ok) == IF ok THEN <<>> ELSE << <<e.id, clause>> >>
Count(seq, x) == Cardinality({j \in 1..Len(seq) : seq[j] = x})
SameBag(a, b) == Len(a) = Len(b) /\ \A j \in 1..Len(a) : Count(a, a[j]) = Count(b, a[j])

JudgeFamily(e) ==
    LET m == e.members
        variants == \A j \in 1..Len(m) : SameBag(m[j].l, m[1].l) /\ SameBag(m[j].r, m[1].r)
    IN   Fails(e, "HARNESS_VariantsAreSameReaction", variants)
      \o Fails(e, "NormalizeDoesNotRaise", \A j \in 1..Len(m) : m[j].raised = "")
      \o Fails(e, "Idempotent", \A j \in 1..Len(m) : m[j].idem)
      \o Fails(e, "SameNormalForm", \A j \in 1..Len(m) : m[j].out = m[1].out)
      \o Fails(e, "DRIFT_NormalFormKeepsMolecules", \A j \in 1..Len(m) : m[j].out_same_molecules)

JudgeSim(e) ==
       Fails(e, "Symmetric", e.ab = e.ba)
    \o Fails(e, "InRange", e.ab >= 0 /\ e.ab <= 1000000 /\ e.ba >= 0 /\ e.ba <= 1000000)
    \o Fails(e, "VariantScoresOne", e.avar = 1000000 /\ e.avar_rev = 1000000)
    \o Fails(e, "SelfScoresOne", e.aa = 1000000)

JudgeBench(e) ==
       Fails(e, "BenchmarkRuns", e.raised = "")
    \o Fails(e, "EverySolvedRowCorrect", e.correct = e.solved_with_expected)

Judge(e) == CASE e.ev = "family" -> JudgeFamily(e)
              [] e.ev = "sim" -> JudgeSim(e)
              [] e.ev = "bench" -> JudgeBench(e)
              [] OTHER -> << <<e.id, "UnknownEvent">> >>
TInit == i = 1 /\ bad = <<>> /\ TLCSet(1, <<>>)
TNext == /\ i <= Len(Log)
         /\ i' = i + 1
         /\ bad' = bad \o Judge(Log[i])
         /\ TLCSet(1, bad')
TSpec == TInit /\ [][TNext]_tvars
Post == JsonSerialize(IOEnv.VERDICT_FILE,
          [consumed |-> TLCGet("stats").diameter - 1, total |-> Len(Log), bad |-> TLCGet(1)])
=============================================================================
