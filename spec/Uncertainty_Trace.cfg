SPECIFICATION TSpec
POSTCONDITION Post
CHECK_DEADLOCK FALSE
