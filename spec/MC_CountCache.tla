---------------------------- MODULE MC_CountCache ----------------------------
EXTENDS CountCache
\* tokens as bags: peroxide, acetone, methanol, water, ethane
MCTokens == [OO |-> [O |-> 2], acetone |-> [C |-> 3, O |-> 1], MeOH |-> [C |-> 1, O |-> 1], ethane |-> [C |-> 2]]
=============================================================================
