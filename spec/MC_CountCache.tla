---------------------------- MODULE MC_CountCache ----------------------------
EXTENDS CountCache, TLC
CONSTANT MaxCalls
\* tokens as bags: peroxide, acetone, methanol, ethane
MCTokens == [OO |-> [O |-> 2], acetone |-> [C |-> 3, O |-> 1], MeOH |-> [C |-> 1, O |-> 1], ethane |-> [C |-> 2]]
TrueCount(t, a) == IF a \in DOMAIN t THEN t[a] ELSE 0
MCTrue == [p \in (DOMAIN MCTokens) \X {"C", "O"} |-> TrueCount(MCTokens[p[1]], p[2])]
Bounded == Len(hist) <= MaxCalls
=============================================================================
