-------------------------------- MODULE Faults --------------------------------
(***************************************************************************)
(* C11: timeouts and failures of MCS-stage jobs are contained to the        *)
(* affected reaction.                                                       *)
(*                                                                         *)
(* Jobs: one substructure search per (reaction, search condition)           *)
(* (mcs_process.py: single_mcs_safe, a one-thread pool with a wait          *)
(* timeout) and one fragment analysis per reaction that has a selected      *)
(* search result (find_graph_dict.py: process_single_pair). Each job may    *)
(* succeed, raise, or time out; after a search timeout the worker THREAD    *)
(* keeps running and may later write its result into the record that was    *)
(* already returned (ZombieWrite, enabled at any later point when the job    *)
(* ran in-process). Selection among conditions, routing by id, the issue     *)
(* overwrite in MCSSearch.find and the per-row try/except of the imputation  *)
(* are modelled as in the code.                                              *)
(*                                                                         *)
(* ShiftOnEmpty = TRUE is a mutant in which an empty search result shortens  *)
(* the per-condition totals (so later reactions read their neighbour's).     *)
(***************************************************************************)
EXTENDS Integers, Sequences, FiniteSets, TLC

CONSTANTS N, NC, ShiftOnEmpty

Rows == 1..N
Conds == 1..NC
SearchFaults == {"none", "exc", "timeout", "zombie"}
GraphFaults == {"none", "exc", "timeout"}

VARIABLES
    tot0,     \* [Rows -> [Conds -> 0..1]]  atoms a fault-free search finds
    imputeOK, \* [Rows -> BOOLEAN]          fault-free imputation + validation succeeds
    fs, fg,   \* planned faults
    ent,      \* [Rows -> [Conds -> [tot, issue]]]  the records returned by the search jobs
    pending,  \* set of <<r, c>> zombie threads that have not written yet
    sel,      \* [Rows -> 0..NC] selected condition (0 = none)
    graph,    \* [Rows -> "n/a" | "ok" | "failed"]
    mcs,      \* [Rows -> "none" | "present"]
    issue,    \* [Rows -> STRING]
    solved,   \* [Rows -> BOOLEAN]
    pc
vars == <<tot0, imputeOK, fs, fg, ent, pending, sel, graph, mcs, issue, solved, pc>>

Entry(r, c) ==
    CASE fs[r][c] = "none"    -> [tot |-> tot0[r][c], issue |-> ""]
      [] fs[r][c] = "exc"     -> [tot |-> 0, issue |-> "MCS identification failed."]
      [] fs[r][c] = "timeout" -> [tot |-> 0, issue |-> "MCS search terminated by timeout."]
      [] fs[r][c] = "zombie"  -> [tot |-> 0, issue |-> "MCS search terminated by timeout."]

Init ==
    /\ tot0 \in [Rows -> [Conds -> 0..1]]
    /\ imputeOK \in [Rows -> BOOLEAN]
    /\ fs \in [Rows -> [Conds -> SearchFaults]]
    /\ fg \in [Rows -> GraphFaults]
    /\ ent = [r \in Rows |-> [c \in Conds |-> Entry(r, c)]]
    /\ pending = {<<r, c>> \in Rows \X Conds : fs[r][c] = "zombie"}
    /\ sel = [r \in Rows |-> 0]
    /\ graph = [r \in Rows |-> "n/a"]
    /\ mcs = [r \in Rows |-> "none"]
    /\ issue = [r \in Rows |-> "No MCS identified."]
    /\ solved = [r \in Rows |-> FALSE]
    /\ pc = "select"

\* the zombie thread finishes: results are written, the timeout issue stays
ZombieWrite ==
    /\ pc # "done"
    /\ \E z \in pending :
         /\ ent' = [ent EXCEPT ![z[1]][z[2]].tot = tot0[z[1]][z[2]]]
         /\ pending' = pending \ {z}
    /\ UNCHANGED <<tot0, imputeOK, fs, fg, sel, graph, mcs, issue, solved, pc>>

\* totals as get_largest_condition sees them for row r under condition c
TotalSeen(r, c) ==
    IF ~ShiftOnEmpty THEN ent[r][c].tot
    ELSE \* mutant: entries with an empty result are dropped from the list, later rows shift left
         LET kept == SelectSeq([j \in Rows |-> j], LAMBDA j : ent[j][c].tot > 0)
         IN IF r <= Len(kept) THEN ent[kept[r]][c].tot ELSE 0

Select ==
    /\ pc = "select"
    /\ sel' = [r \in Rows |->
                 LET best == CHOOSE c \in Conds : \A d \in Conds :
                                 TotalSeen(r, c) > TotalSeen(r, d) \/ (TotalSeen(r, c) = TotalSeen(r, d) /\ c <= d)
                 IN IF TotalSeen(r, best) > 0 THEN best ELSE 0]
    /\ pc' = "graph"
    /\ UNCHANGED <<tot0, imputeOK, fs, fg, ent, pending, graph, mcs, issue, solved>>

Graph ==
    /\ pc = "graph"
    /\ graph' = [r \in Rows |-> IF sel[r] = 0 THEN "n/a"
                                ELSE IF fg[r] = "none" /\ ent[r][sel[r]].tot > 0 THEN "ok" ELSE "failed"]
    /\ pc' = "attach"
    /\ UNCHANGED <<tot0, imputeOK, fs, fg, ent, pending, sel, mcs, issue, solved>>

\* mcs_search.py:94-100: the selected entry's fields overwrite the analysis result,
\* including its issue text
Attach ==
    /\ pc = "attach"
    /\ mcs' = [r \in Rows |-> IF sel[r] = 0 THEN "none" ELSE "present"]
    /\ issue' = [r \in Rows |-> IF sel[r] = 0 THEN issue[r] ELSE ent[r][sel[r]].issue]
    /\ pc' = "impute"
    /\ UNCHANGED <<tot0, imputeOK, fs, fg, ent, pending, sel, graph, solved>>

\* MCSBasedMethod.run: every exception is caught per row and becomes the issue;
\* the final validator then reverts unsolved rows
Impute ==
    /\ pc = "impute"
    /\ solved' = [r \in Rows |-> mcs[r] = "present" /\ issue[r] = "" /\ graph[r] = "ok" /\ imputeOK[r]]
    /\ issue' = [r \in Rows |->
                   IF mcs[r] # "present" THEN issue[r]
                   ELSE IF issue[r] # "" THEN "Skip reaction because of previous issue."
                   ELSE IF graph[r] # "ok" THEN "Smiles and sorted reactants are not of the same length."
                   ELSE IF imputeOK[r] THEN "" ELSE "Final reaction is unbalanced."]
    /\ pc' = "done"
    /\ UNCHANGED <<tot0, imputeOK, fs, fg, ent, pending, sel, graph, mcs>>

Next == ZombieWrite \/ Select \/ Graph \/ Attach \/ Impute
Spec == Init /\ [][Next]_vars

Done == pc = "done"
Affected(r) == fg[r] # "none" \/ \E c \in Conds : fs[r][c] # "none"
\* outcome of row r without any fault
RefSolved(r) == (\E c \in Conds : tot0[r][c] > 0) /\ imputeOK[r]

NoRowLost == Done => DOMAIN solved = Rows
EitherSolvedOrDeclinedWithReason == Done => \A r \in Rows : solved[r] \/ issue[r] # ""
SolvedHasNoIssue == Done => \A r \in Rows : solved[r] => issue[r] = ""
UnaffectedRowsAsWithoutFaults == Done => \A r \in Rows : ~Affected(r) => solved[r] = RefSolved(r)
\* a fault never turns a reaction the tool cannot solve into a solved one
FaultsNeverSolveMore == Done => \A r \in Rows : solved[r] => RefSolved(r)
=============================================================================
