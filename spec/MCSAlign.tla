------------------------------- MODULE MCSAlign -------------------------------
(***************************************************************************)
(* Alignment of patterns with molecules inside ONE search result (C10):    *)
(* MCSMissingGraphAnalyzer.IterativeMCSReactionPairs                       *)
(* (mcs_graph_detector.py:48-188), single_mcs (mcs_process.py:17-71) and   *)
(* the length checks of build_compounds (mcs_based_method.py:7-27).        *)
(*                                                                         *)
(* Stage 1 ranks the molecules of the carbon-richer side by the size of    *)
(* their common substructure with the other side; a search that was        *)
(* CANCELLED (time budget) drops the molecule from the ranking. Stage 2    *)
(* walks the ranking: a successful search appends its pattern, an          *)
(* exception appends None, a cancelled search appends NOTHING. single_mcs  *)
(* refuses the result when molecules were dropped in stage 1;              *)
(* build_compounds refuses it when the two lists differ in length. Every   *)
(* pattern carries the ghost field `owner`. Whenever a result is USED,     *)
(* pattern i must belong to molecule i and the molecule list must be the   *)
(* whole side.                                                             *)
(***************************************************************************)
EXTENDS Integers, Sequences, FiniteSets, TLC

CONSTANTS N, LengthCheck    \* LengthCheck = TRUE: the code; FALSE: mutant without the build_compounds check

Mols == 1..N
Outcome1 == {"ok", "canceled"}
Outcome2 == {"ok", "exception", "canceled"}

VARIABLES size, o1, o2
vars == <<size, o1, o2>>

Init == /\ size \in [Mols -> 0..2]
        /\ o1 \in [Mols -> Outcome1]
        /\ o2 \in [Mols -> Outcome2]
Next == UNCHANGED vars
Spec == Init /\ [][Next]_vars

\* stage 1: molecules whose ranking search was not cancelled, sorted by size descending (stable)
Kept == SelectSeq([j \in Mols |-> j], LAMBDA j : o1[j] = "ok")
RECURSIVE Ins(_, _)
Ins(s, m) == IF s = <<>> THEN <<m>>
             ELSE IF size[m] > size[Head(s)] THEN <<m>> \o s ELSE <<Head(s)>> \o Ins(Tail(s), m)
RECURSIVE SortBy(_)
SortBy(s) == IF s = <<>> THEN <<>> ELSE Ins(SortBy(SubSeq(s, 1, Len(s) - 1)), s[Len(s)])
Sorted == SortBy(Kept)

\* stage 2: one entry per ranked molecule, except for cancelled searches
RECURSIVE Patterns(_)
Patterns(k) ==
    IF k > Len(Sorted) THEN <<>>
    ELSE LET m == Sorted[k] IN
         (CASE o2[m] = "ok" -> << [owner |-> m, none |-> FALSE] >>
            [] o2[m] = "exception" -> << [owner |-> m, none |-> TRUE] >>
            [] o2[m] = "canceled" -> <<>>) \o Patterns(k + 1)
McsList == Patterns(1)

\* single_mcs: "Uncertian MCS." when the ranking lost a molecule
Accepted1 == Len(Sorted) = N
\* build_compounds: lists of unequal length raise
Accepted2 == ~LengthCheck \/ Len(McsList) = Len(Sorted)
Used == Accepted1 /\ Accepted2

WholeSide == Used => {Sorted[k] : k \in 1..Len(Sorted)} = Mols
Aligned == Used => \A k \in 1..Len(McsList) : k <= Len(Sorted) => McsList[k].owner = Sorted[k]
OnePatternPerMolecule == Used => Len(McsList) = Len(Sorted)
=============================================================================
