----------------------------- MODULE PatternMatch -----------------------------
(***************************************************************************)
(* pattern_match / is_functional_group                                      *)
(* (synrbl/SynUtils/functional_group_utils.py:131-260), C16.                *)
(*                                                                         *)
(* A graph is a record [n, lab, bt]: atoms 1..n, lab[i] the element symbol, *)
(* bt[i][j] the bond type between i and j (0 = no bond, 1 single, 2 double, *)
(* 3 triple, 4 aromatic), symmetric.                                        *)
(*                                                                         *)
(* Occurs    : the declarative meaning - there is an injective embedding of *)
(*             the pattern into the molecule that preserves elements and    *)
(*             EVERY pattern bond (type included) and whose image contains  *)
(*             the anchor atom.                                             *)
(* FitsAlgo  : the transcription of the recursive neighbour-permutation     *)
(*             search: atoms already on the CURRENT PATH are excluded, the  *)
(*             direct neighbours of one atom are assigned injectively, bond *)
(*             types are compared along the walk; sibling branches do not   *)
(*             know of each other and ring-closure bonds of the pattern are *)
(*             never compared. The boolean result is "some assignment       *)
(*             works", so it does not depend on the order in which          *)
(*             neighbours are listed.                                       *)
(***************************************************************************)
EXTENDS Integers, Sequences, FiniteSets, TLC

Nbrs(g, i) == {j \in 1..g.n : g.bt[i][j] # 0}

Injections(S, T) == {f \in [S -> T] : \A a, b \in S : a # b => f[a] # f[b]}

(* ---------------- declarative ---------------- *)
Embeddings(g, p) ==
    {f \in Injections(1..p.n, 1..g.n) :
        /\ \A i \in 1..p.n : p.lab[i] = g.lab[f[i]]
        /\ \A i, j \in 1..p.n : p.bt[i][j] # 0 => g.bt[f[i]][f[j]] = p.bt[i][j]}
Occurs(g, anchor, p) == \E f \in Embeddings(g, p) : \E i \in 1..p.n : f[i] = anchor
OccursAt(g, anchor, p, pa) == \E f \in Embeddings(g, p) : f[pa] = anchor

(* ---------------- the algorithm ---------------- *)
RECURSIVE Fits(_, _, _, _, _, _)
Fits(g, p, a, pa, vg, vp) ==
    /\ g.lab[a] = p.lab[pa]
    /\ LET vg1 == vg \cup {a}
           vp1 == vp \cup {pa}
           an == Nbrs(g, a) \ vg1
           pn == Nbrs(p, pa) \ vp1
       IN pn = {} \/
          \E m \in Injections(pn, an) :
             \A x \in pn : /\ p.lab[x] = g.lab[m[x]]
                           /\ g.bt[a][m[x]] = p.bt[pa][x]
                           /\ Fits(g, p, m[x], x, vg1, vp1)

FitsAt(g, anchor, p, pa) == Fits(g, p, anchor, pa, {}, {})
FitsAlgo(g, anchor, p) == \E pa \in 1..p.n : FitsAt(g, anchor, p, pa)

(* renumbering *)
Perms(n) == Injections(1..n, 1..n)
Renumber(g, pi) ==   \* atom i of g becomes atom pi[i]
    LET inv == [k \in 1..g.n |-> CHOOSE i \in 1..g.n : pi[i] = k] IN
    [n |-> g.n, lab |-> [k \in 1..g.n |-> g.lab[inv[k]]],
     bt |-> [k \in 1..g.n |-> [l \in 1..g.n |-> g.bt[inv[k]][inv[l]]]]]

(* a functional group: pattern and group-atom pattern match, no anti-pattern matches *)
IsGroup(g, anchor, pats, grps, antis) ==
    /\ \E k \in 1..Len(pats) : FitsAlgo(g, anchor, pats[k]) /\ FitsAlgo(g, anchor, grps[k])
    /\ \A k \in 1..Len(antis) : ~FitsAlgo(g, anchor, antis[k])
=============================================================================
