---------------------------- MODULE Pipeline_Cover ----------------------------
(* Which behaviour of Pipeline.tla do real rows exercise? TLC explores the design *)
(* model once more and collects, through an action constraint, every transition   *)
(* projected on what the hook snapshots show (the variables Pipeline_Trace        *)
(* matches). The harness compares this set with the transitions of the recorded   *)
(* row histories: transitions of the model that no real row took are listed in    *)
(* the evidence (inputs to construct), transitions of real rows outside the set   *)
(* are what Pipeline_Trace reports as drift.                                      *)
EXTENDS Pipeline, Json, IOUtils

IssueClass(x) == IF x = Absent THEN "absent" ELSE IF x = "" THEN "empty" ELSE "text"
Here == [pc |-> pc, cur |-> cur, same |-> (added = 0), solved |-> solved, by |-> by, issue |-> IssueClass(issue),
         mcs |-> mcsKey, clabel |-> clabel,
         conf |-> IF conf = -1 THEN "none" ELSE IF conf >= thr THEN "ge" ELSE "lt", thr0 |-> (thr = 0)]
There == [pc |-> pc', cur |-> cur', same |-> (added' = 0), solved |-> solved', by |-> by', issue |-> IssueClass(issue'),
          mcs |-> mcsKey', clabel |-> clabel',
          conf |-> IF conf' = -1 THEN "none" ELSE IF conf' >= thr THEN "ge" ELSE "lt", thr0 |-> (thr = 0)]

CInit == Init /\ TLCSet(2, {})
CSpec == CInit /\ [][Next]_vars
Record == TLCSet(2, TLCGet(2) \cup {<<Here, There>>})
Post == JsonSerialize(IOEnv.VERDICT_FILE, [transitions |-> TLCGet(2)])
=============================================================================
