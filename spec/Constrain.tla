------------------------------ MODULE Constrain ------------------------------
(***************************************************************************)
(* The placeholder rewriting of RuleConstraint.reduction_oxidation_rules_   *)
(* modify (synthetic_rule_constraint.py:63-129) on the PRODUCT side, at the *)
(* level of '.'-separated tokens (C02, C14).                                *)
(*                                                                         *)
(* The code works on the joined text: it tests ".[H]" / ".[O]" / ".OO" as   *)
(* substrings, counts and removes them with str.count / str.replace. A      *)
(* token is modelled as a record [head, rest]: head is the marker the token *)
(* text starts with ("[H]", "[O]", "OO" or "" for none), rest says whether  *)
(* more text follows ("" = the token IS the marker, e.g. [H]; non-empty =   *)
(* a larger molecule whose text merely begins with the marker, e.g. [H][H], *)
(* OOC(C)=O).                                                               *)
(*                                                                         *)
(* Literal*  : what the substring operations do                             *)
(* Bag*      : what is meant (whole-token semantics)                        *)
(* The two agree, and the result does not depend on the order in which the  *)
(* INPUT molecules are written, provided no input molecule's text begins    *)
(* with a marker (AllowMarkerPrefixedInputs = FALSE). With such inputs      *)
(* allowed TLC exhibits the differences (known finding of C02).             *)
(***************************************************************************)
EXTENDS Integers, Sequences, FiniteSets, TLC

CONSTANTS AllowMarkerPrefixedInputs, MaxInput, MaxAdded

Markers == {"[H]", "[O]", "OO"}
Tok(h, r) == [head |-> h, rest |-> r]
Plain == {Tok("", "CC"), Tok("", "O"), Tok("", "CCO")}
PrefixedInputs == {Tok("[H]", "[H]"), Tok("[H]", "C"), Tok("OO", ""), Tok("OO", "C"), Tok("[O]", "C")}
InputToks == Plain \cup (IF AllowMarkerPrefixedInputs THEN PrefixedInputs ELSE {})
\* what the imputer appends: whole placeholder tokens (or ordinary compounds)
AddedToks == {Tok("[H]", ""), Tok("[O]", ""), Tok("OO", ""), Tok("", "O")}

AllToks == Plain \cup PrefixedInputs \cup AddedToks
IsMarker(t, m) == t.head = m /\ t.rest = ""
StartsWith(t, m) == t.head = m

\* substring test ".m" on the joined text: a token other than the first starts with m
LitContains(s, m) == \E j \in 2..Len(s) : StartsWith(s[j], m)
LitCount(s, m) == Cardinality({j \in 2..Len(s) : StartsWith(s[j], m)})
\* str.split(".").count(m): whole tokens equal to m (any position)
TokCount(s, m) == Cardinality({j \in 1..Len(s) : IsMarker(s[j], m)})

\* replace(".m", ""): every non-first token starting with m loses the marker and
\* its dot: a whole marker token disappears, a longer token is glued to its
\* predecessor (the molecule is destroyed: GLUED)
Glued == Tok("", "GLUED")
RECURSIVE LitRemoveAcc(_, _, _, _)
LitRemoveAcc(s, m, j, acc) ==
    IF j > Len(s) THEN acc
    ELSE IF j >= 2 /\ StartsWith(s[j], m)
         THEN (IF s[j].rest = ""
               THEN LitRemoveAcc(s, m, j + 1, acc)                       \* ".[H]" vanishes
               ELSE \* ".[H]C" -> "C" is glued to the text of the token before it: both are destroyed
                    \* (glued onto a bare marker token the text reads as that marker followed by the rest)
                    LitRemoveAcc(s, m, j + 1,
                                 IF acc = <<>> THEN <<Glued>>
                                 ELSE LET prev == acc[Len(acc)] IN
                                      SubSeq(acc, 1, Len(acc) - 1)
                                      \o << IF prev.head # "" /\ prev.rest = "" /\ Tok(prev.head, s[j].rest) \in AllToks
                                            THEN Tok(prev.head, s[j].rest) ELSE Glued >>))
         ELSE LitRemoveAcc(s, m, j + 1, Append(acc, s[j]))
LitRemove(s, m, j) == LitRemoveAcc(s, m, 1, <<>>)

BagRemove(s, m) == SelectSeq(s, LAMBDA t : ~IsMarker(t, m))

Water(n) == [j \in 1..n |-> Tok("", "O")]

\* products after the rewriting, literal version (reactant side omitted: it only
\* receives appended placeholders)
Literal(s) ==
    LET s1 == IF LitContains(s, "[H]") /\ TokCount(s, "[H]") % 2 = 0
              THEN LitRemove(s, "[H]", 1) \o Water(LitCount(s, "[H]") \div 2)
              ELSE s
        s2 == IF LitContains(s1, "[O]")
              THEN (IF TokCount(s1, "[O]") % 2 = 0 THEN s1
                    ELSE LitRemove(s1, "[O]", 1) \o Water(LitCount(s1, "[O]")))
              ELSE IF LitContains(s1, "OO")
                   THEN LitRemove(s1, "OO", 1) \o Water(2)
                   ELSE s1
    IN s2

Intended(s) ==
    LET nH == TokCount(s, "[H]")
        s1 == IF nH > 0 /\ nH % 2 = 0 THEN BagRemove(s, "[H]") \o Water(nH \div 2) ELSE s
        nO == TokCount(s1, "[O]")
        s2 == IF nO > 0
              THEN (IF nO % 2 = 0 THEN s1 ELSE BagRemove(s1, "[O]") \o Water(nO))
              ELSE IF TokCount(s1, "OO") > 0 THEN BagRemove(s1, "OO") \o Water(2) ELSE s1
    IN s2

BagOf(s) == [t \in {s[j] : j \in 1..Len(s)} |-> Cardinality({j \in 1..Len(s) : s[j] = t})]

VARIABLES inp, added
vars == <<inp, added>>
Init == /\ inp \in UNION {[1..n -> InputToks] : n \in 1..MaxInput}
        /\ added \in UNION {[1..n -> AddedToks] : n \in 0..MaxAdded}
Next == UNCHANGED vars
Spec == Init /\ [][Next]_vars

Side == inp \o added
Perms(s) == {p \in [1..Len(s) -> 1..Len(s)] : \A a, b \in 1..Len(s) : a # b => p[a] # p[b]}
Permuted(s, p) == [j \in 1..Len(s) |-> s[p[j]]]

\* substring surgery = whole-token surgery
LiteralIsIntended == BagOf(Literal(Side)) = BagOf(Intended(Side))
\* no molecule of the input is destroyed or removed
InputKept == \A j \in 1..Len(inp) :
                 Cardinality({k \in 1..Len(Literal(Side)) : Literal(Side)[k] = inp[j]})
                   >= Cardinality({k \in 1..Len(inp) : inp[k] = inp[j]})
\* writing the input molecules in another order gives the same multiset
OrderInvariant == \A p \in Perms(inp) : BagOf(Literal(Permuted(inp, p) \o added)) = BagOf(Literal(Side))
=============================================================================
