CONSTANTS
  MaxAtoms = 7
  MaxQ = 2
  Mutation = "none"
SPECIFICATION Spec
INVARIANT AllExact
INVARIANT AllPositive
INVARIANT Bounded
CHECK_DEADLOCK FALSE
