--------------------------- MODULE Templates_Trace ---------------------------
(* "table": one shipped reagent template in one of the ways the code uses it, with  *)
(* oracle compositions - is it neutral with respect to the placeholders it replaces?*)
(* "apply": the real process_reduct_template / process_ox_template on a reaction    *)
(* with placeholder atoms - does what came out have the compositions Templates.tla  *)
(* predicts (After), and is an inapplicable case (odd number of [H]) left alone?    *)
EXTENDS Templates, Json, IOUtils

Log == ndJsonDeserialize(IOEnv.TRACE_FILE)
VARIABLES i, bad
tvars == <<i, bad>>
Fails(e, clause, ok) == IF ok THEN <<>> ELSE << <<e.id, clause>> >>

Mode(e) == IF e.kind = "reduction" THEN "per_atom" ELSE e.mode
T(e) == [reactants |-> e.t.reactants, products |-> e.t.products]

JudgeTable(e) == Fails(e, "TemplateNeutral", Neutral(T(e), e.kind, Mode(e), e.n))

JudgeApply(e) ==
       Fails(e, "ApplyDoesNotRaise", e.raised = "")
    \o (IF e.raised # "" THEN <<>>
        ELSE IF e.changed
        THEN LET a == After(e.l, e.r, T(e), e.kind, Mode(e), e.n) IN
                Fails(e, "AppliedOnlyWhenApplicable", Applies(e.kind, e.n))
             \o Fails(e, "OutputIsTemplateApplied", SameComp(e.out_l, a.l) /\ SameComp(e.out_r, a.r))
             \o Fails(e, "NeutralTemplateKeepsBalance",
                      (Neutral(T(e), e.kind, Mode(e), e.n) /\ BalancedWithPlaceholders(e.l, e.r, e.kind, e.n))
                         => SameComp(e.out_l, e.out_r))
        ELSE <<>>)

Judge(e) == CASE e.ev = "table" -> JudgeTable(e)
              [] e.ev = "apply" -> JudgeApply(e)
              [] OTHER -> << <<e.id, "UnknownEvent">> >>
TInit == i = 1 /\ bad = <<>> /\ TLCSet(1, <<>>)
TNext == /\ i <= Len(Log)
         /\ i' = i + 1
         /\ bad' = bad \o Judge(Log[i])
         /\ TLCSet(1, bad')
TSpec == TInit /\ [][TNext]_tvars
Post == JsonSerialize(IOEnv.VERDICT_FILE,
          [consumed |-> TLCGet("stats").diameter - 1, total |-> Len(Log), bad |-> TLCGet(1)])
=============================================================================
