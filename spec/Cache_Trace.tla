------------------------------ MODULE Cache_Trace ------------------------------
(* C12: every real run with caching enabled - started from a directory state    *)
(* enumerated by TLC from Cache.tla, as a step of a multi-run history, or from a *)
(* truncated entry - is compared with the same call with caching disabled.       *)
(* For history events the trace specification also steps the set of completed    *)
(* entries of Cache.tla (KeyIncludesConfig) and predicts hit / miss per batch;   *)
(* a mismatch there is model drift (reported, not a violation).                  *)
EXTENDS Integers, Sequences, FiniteSets, TLC, Json, IOUtils

Log == ndJsonDeserialize(IOEnv.TRACE_FILE)
VARIABLES i, done, bad
tvars == <<i, done, bad>>

StatKeys == {"reaction_cnt", "balanced_cnt", "rb_applied", "rb_solved", "mcs_applied", "mcs_solved",
             "confident_cnt"}
SV(st, k) == IF k \in DOMAIN st THEN st[k] ELSE 0
Fails(e, clause, ok) == IF ok THEN <<>> ELSE << <<e.id, clause>> >>

\* the call cuts its input into chunks (e.chunks: one per named batch, or the whole input when batch_size is
\* None); an entry is identified by the rows of the chunk and the part of the configuration results depend on
KeysOfRun(e) == {<<e.chunks[j], e.keycfg>> : j \in 1..Len(e.chunks)}
\* (the set of entries is read once when the call starts: a chunk repeated inside one call misses both times)
PredictedHits(e, d) == [j \in 1..Len(e.chunks) |-> <<e.chunks[j], e.keycfg>> \in d]

Judge(e, d) ==
       Fails(e, "RunDoesNotRaise", e.raised = "")
    \o Fails(e, "RowsTransparent", e.returned = e.expected)
    \o Fails(e, "StatsTransparent", \A k \in StatKeys : SV(e.stats, k) = SV(e.exp_stats, k))
    \o (IF e.kind = "history" /\ e.raised = ""
        THEN Fails(e, "DRIFT_HitPrediction", e.hits = PredictedHits(e, d))
        ELSE <<>>)

TInit == i = 1 /\ done = {} /\ bad = <<>> /\ TLCSet(1, <<>>)
TNext == /\ i <= Len(Log)
         /\ i' = i + 1
         /\ LET e == Log[i]
                d == IF e.kind = "history" /\ e.installed.history_step = 0 THEN {}
                     ELSE IF e.kind = "history" THEN done ELSE {}
            IN /\ bad' = bad \o Judge(e, d)
               /\ done' = IF e.kind = "history" THEN d \cup KeysOfRun(e) ELSE {}
         /\ TLCSet(1, bad')
TSpec == TInit /\ [][TNext]_tvars
Post == JsonSerialize(IOEnv.VERDICT_FILE,
          [consumed |-> TLCGet("stats").diameter - 1, total |-> Len(Log), bad |-> TLCGet(1)])
=============================================================================
