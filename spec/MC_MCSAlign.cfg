CONSTANTS
  N = 3
  LengthCheck = TRUE
SPECIFICATION Spec
INVARIANT WholeSide
INVARIANT Aligned
INVARIANT OnePatternPerMolecule
CHECK_DEADLOCK FALSE
