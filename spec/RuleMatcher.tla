----------------------------- MODULE RuleMatcher -----------------------------
(***************************************************************************)
(* The rule-based completion solver (C08):                                  *)
(* SyntheticRuleMatcher (synrbl/SynRuleImputer/synthetic_rule_matcher.py)   *)
(* transcribed as a recursive operator over composition dictionaries.       *)
(* A database is a sequence of records [smiles, comp] (comp has the charge  *)
(* key "Q"); an imbalance is a dictionary with non-negative element entries *)
(* and an integer charge.                                                   *)
(***************************************************************************)
EXTENDS Integers, Sequences, FiniteSets, FiniteSetsExt, TLC

QK == "Q"
V(d, k) == IF k \in DOMAIN d THEN d[k] ELSE 0
Abs(x) == IF x < 0 THEN -x ELSE x
MinOf(S) == CHOOSE x \in S : \A y \in S : x <= y

\* __init__: make sure Q exists, drop zero entries except Q
Normalise(d) ==
    LET dom == {k \in DOMAIN d : d[k] # 0} \cup {QK}
    IN [k \in dom |-> V(d, k)]

\* constructor: rules sorted by number of composition keys, descending, stable
RECURSIVE InsertSorted(_, _)
InsertSorted(sorted, r) ==
    IF sorted = <<>> THEN <<r>>
    ELSE IF Cardinality(DOMAIN Head(sorted).comp) >= Cardinality(DOMAIN r.comp)
         THEN <<Head(sorted)>> \o InsertSorted(Tail(sorted), r)
         ELSE <<r>> \o sorted
RECURSIVE SortRules(_)
SortRules(db) == IF db = <<>> THEN <<>>
                 ELSE InsertSorted(SortRules(SubSeq(db, 1, Len(db) - 1)), db[Len(db)])

CanMatch(rule, data) == \A k \in DOMAIN rule \ {QK} : k \in DOMAIN data /\ data[k] >= rule[k]

\* abs(min(data[k] // v for the element keys of the rule))
Ratio(rule, data) ==
    LET qs == {(IF rule[k] # 0 THEN data[k] \div rule[k] ELSE 0) : k \in DOMAIN rule \ {QK}}
    IN Abs(MinOf(qs))

ApplyData(rule, data) ==
    LET r == Ratio(rule, data)
        nd == [k \in DOMAIN data |-> IF k \in DOMAIN rule THEN data[k] - rule[k] * r ELSE data[k]]
        keep == {k \in DOMAIN nd : nd[k] # 0 \/ k = QK}
    IN [k \in keep |-> nd[k]]

ExitOK(data) == Cardinality(DOMAIN data) = 1 /\ V(data, QK) = 0

\* dfs with select = "all": every path (sequence of [smiles, ratio]) that ends in
\* the exit state; the search does not continue below an exit state
RECURSIVE Paths(_, _)
Paths(db, data) ==
    IF ExitOK(data) THEN {<<>>}
    ELSE UNION { LET rule == db[j].comp IN
                 { <<[smiles |-> db[j].smiles, ratio |-> Ratio(rule, data)]>> \o p
                     : p \in Paths(db, ApplyData(rule, data)) }
               : j \in {j \in 1..Len(db) : db[j].comp # <<>> /\ DOMAIN db[j].comp \ {QK} # {}
                                           /\ CanMatch(db[j].comp, data)} }

AsSet(p) == {<<p[j].smiles, p[j].ratio>> : j \in 1..Len(p)}
\* remove_overlapping_solutions: one representative per set of (smiles, ratio)
Solutions(db, data) == {AsSet(p) : p \in Paths(SortRules(db), Normalise(data))}

(***************************************************************************)
(* What the property demands of a completion s (set of <<smiles, ratio>>)  *)
(* for the imbalance `data`, compOf giving the TRUE composition of a        *)
(* database SMILES.                                                         *)
(***************************************************************************)
SumKey(s, k, compOf(_)) == FoldSet(LAMBDA e, acc : acc + e[2] * V(compOf(e[1]), k), 0, s)
KeysIn(s, data, compOf(_)) == DOMAIN data \cup UNION {DOMAIN compOf(e[1]) : e \in s}

Exact(s, data, compOf(_)) ==
    \A k \in KeysIn(s, data, compOf) : SumKey(s, k, compOf) = V(data, k)
PositiveRatios(s) == \A e \in s : e[2] >= 1
FromDatabase(s, db) == \A e \in s : \E j \in 1..Len(db) : db[j].smiles = e[1]

\* ion_priority ranking: a shortest completion, and among the shortest one of
\* maximal ionic content (sum of |formal charges| x ratio)
IonicOf(s, ionic(_)) == FoldSet(LAMBDA e, acc : acc + e[2] * ionic(e[1]), 0, s)
WellRanked(chosen, sols, ionic(_)) ==
    /\ chosen \in sols
    /\ \A s \in sols : Cardinality(chosen) <= Cardinality(s)
    /\ \A s \in sols : Cardinality(s) = Cardinality(chosen)
                          => IonicOf(chosen, ionic) >= IonicOf(s, ionic)
=============================================================================
