CONSTANTS
  FixpointLoop = TRUE
  CheckRewriteResult = TRUE
  MaxRedexes = 3
SPECIFICATION Spec
INVARIANT ReturnsSmiles
INVARIANT AtomsConserved
INVARIANT Idempotent
INVARIANT NoIntermediateError
CHECK_DEADLOCK FALSE
