CONSTANTS
  MaxN = 3
  RequireNeutral = TRUE
SPECIFICATION Spec
INVARIANT InvPreserves
CHECK_DEADLOCK FALSE
