-------------------------- MODULE MC_CountCacheInd --------------------------
(* Apalache: MemoSound /\ AnswersAreTrue is an inductive invariant of CountCache  *)
(* with object scope, for an arbitrary true-count function TC (ConstInit leaves    *)
(* it unconstrained beyond its type) - so the property holds for call histories    *)
(* of any length, not only the TLC bound.                                          *)
(*   apalache-mc check --cinit=ConstInit --init=Init    --inv=IndInv --length=0    *)
(*   apalache-mc check --cinit=ConstInit --init=IndInit --inv=IndInv --length=1    *)
(* hist is not part of the invariant: no action reads it, IndInit fixes it to the  *)
(* empty sequence only to give Apalache an assignment.                             *)
EXTENDS CountCache, Apalache

ConstInit ==
    /\ TokenIds = {"t1", "t2", "t3"}
    /\ Atoms = {"C", "O", "N"}
    /\ Objs = {"o1", "o2", "o3"}
    /\ Scope = "object"
    /\ TC \in [TokenIds \X Atoms -> 0..3]

\* sensitivity: with a process-wide memo the invariant is not inductive (Apalache must report an error)
ConstInitProcess ==
    /\ TokenIds = {"t1", "t2", "t3"}
    /\ Atoms = {"C", "O", "N"}
    /\ Objs = {"o1", "o2", "o3"}
    /\ Scope = "process"
    /\ TC \in [TokenIds \X Atoms -> 0..3]

TypeOK ==
    /\ DOMAIN atomOf = Objs
    /\ \A o \in Objs : atomOf[o] \in Atoms \cup {"none"}
    /\ DOMAIN memo = Owners
    /\ \A o \in Owners : /\ DOMAIN memo[o] \subseteq TokenIds
                         /\ \A tk \in DOMAIN memo[o] : memo[o][tk] \in 0..3
    /\ last.answer \in 0..3 /\ last.truth \in 0..3
IndInv == TypeOK /\ MemoSound /\ AnswersAreTrue
IndInit ==
    /\ atomOf = Gen(3)
    /\ memo = Gen(3)
    /\ last = Gen(1)
    /\ hist = <<>>
    /\ IndInv
=============================================================================
