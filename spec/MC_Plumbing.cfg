CONSTANTS
  N = 4
  NC = 2
  UseZip = FALSE
SPECIFICATION Spec
INVARIANT Attribution
CHECK_DEADLOCK FALSE
