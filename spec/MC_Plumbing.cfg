CONSTANTS
  N = 4
  NC = 2
  UseZip = FALSE
SPECIFICATION Spec
INVARIANT Attribution
INVARIANT OtherWriteBacks
CHECK_DEADLOCK FALSE
