-------------------------------- MODULE Cache --------------------------------
(***************************************************************************)
(* Result caching of Balancer.rebalance (balancing.py:238-278,             *)
(* SynUtils/batching.py:83-116) as a history machine over a shared cache   *)
(* directory (C12).                                                        *)
(*                                                                         *)
(* A run = Scan (directory listing -> refs), then for every batch Lookup   *)
(* -> Hit (rows AND statistics come from the file) or Miss -> pipeline ->  *)
(* write. A write is several steps and Crash may end the run between any   *)
(* two of them; the next run starts from whatever the directory holds.     *)
(*                                                                         *)
(* Switches (TRUE = intended):                                             *)
(*   KeyIncludesConfig  the key hashes the batch rows and the run          *)
(*                      configuration (threshold, column names)            *)
(*   BatchKey           what the key sees of a batch: the identity (IdKey) *)
(*                      is intended - every row with all its columns. A    *)
(*                      key computed from a projection of the rows (only   *)
(*                      the valid ones, only the reaction column, a        *)
(*                      normalised spelling) maps different batches to one *)
(*                      entry: TwinKey                                     *)
(*   AtomicWrite        entry written to a temp file, then renamed         *)
(*   TolerantLoad       an undecodable entry is treated as a miss          *)
(***************************************************************************)
EXTENDS Integers, Sequences, FiniteSets, TLC

CONSTANTS Batches, Cfgs, MaxRuns, MaxBatchesPerRun, KeyIncludesConfig, AtomicWrite, TolerantLoad, BatchKey

IdKey == [b \in Batches |-> b]
TwinKey == [b \in Batches |-> "twins"]
NoCfg == "any"
KeyOf(b, c) == <<BatchKey[b], IF KeyIncludesConfig THEN c ELSE NoCfg>>
KeySpace == {KeyOf(b, c) : b \in Batches, c \in Cfgs}

\* file contents: "absent", "partial" (some strict prefix, possibly empty, of an
\* entry) or the complete entry computed for <<batch, cfg>>
Full(b, c) == [kind |-> "full", b |-> b, c |-> c]
FAbsent  == [kind |-> "absent", b |-> "-", c |-> "-"]
FPartial == [kind |-> "partial", b |-> "-", c |-> "-"]
IsFull(f) == f.kind = "full"

VARIABLES disk,      \* [KeySpace -> file state]  final files <key>.cache
          temp,      \* [KeySpace -> file state]  temp files (atomic variant)
          nruns,     \* completed + crashed + failed runs so far
          pc,        \* "idle" | "lookup" | "write1" | "write2" | "write3"
          cfg, todo, \* configuration and remaining batches of the current run
          refs,      \* keys found by the directory scan at the start of the run
          cur,       \* batch being processed
          returned,  \* results of the current run so far
          hist,      \* the runs started so far: [cfg, batches, outcome]
          ok         \* FALSE once a completed run returned something wrong or a run raised
vars == <<disk, temp, nruns, pc, cfg, todo, refs, cur, returned, hist, ok>>

BatchSeqs == UNION {[1..n -> Batches] : n \in 1..MaxBatchesPerRun}

Init == /\ disk = [k \in KeySpace |-> FAbsent]
        /\ temp = [k \in KeySpace |-> FAbsent]
        /\ nruns = 0 /\ pc = "idle" /\ cfg = NoCfg /\ todo = <<>> /\ refs = {}
        /\ cur = NoCfg /\ returned = <<>> /\ hist = <<>> /\ ok = TRUE

StartRun ==
    /\ pc = "idle" /\ nruns < MaxRuns
    /\ \E c \in Cfgs, bs \in BatchSeqs :
         /\ cfg' = c /\ todo' = bs
         /\ hist' = Append(hist, [cfg |-> c, batches |-> bs, outcome |-> "running"])
    /\ refs' = {k \in KeySpace : disk[k].kind # "absent"}          \* CacheManager.__init__ scan
    /\ returned' = <<>> /\ pc' = "lookup" /\ cur' = NoCfg
    /\ UNCHANGED <<disk, temp, nruns, ok>>

Mark(o) == hist' = [hist EXCEPT ![Len(hist)].outcome = o]

FinishRun ==
    /\ pc = "lookup" /\ todo = <<>>
    /\ pc' = "idle" /\ nruns' = nruns + 1 /\ Mark("completed")
    /\ UNCHANGED <<disk, temp, cfg, todo, refs, cur, returned, ok>>

\* what the run returns for batch b must be the no-cache result <<b, cfg>>
Deliver(b, content) ==
    /\ returned' = Append(returned, content)
    /\ ok' = (ok /\ content = <<b, cfg>>)

Lookup ==
    /\ pc = "lookup" /\ todo # <<>>
    /\ LET b == Head(todo)  k == KeyOf(b, cfg) IN
       IF k \in refs /\ (IsFull(disk[k]) \/ ~TolerantLoad)
       THEN IF IsFull(disk[k])
            THEN \* hit: rows and statistics come from the file
                 /\ Deliver(b, <<disk[k].b, disk[k].c>>)
                 /\ todo' = Tail(todo) /\ pc' = "lookup"
                 /\ UNCHANGED <<disk, temp, nruns, cfg, refs, cur, hist>>
            ELSE \* json.load raises out of rebalance: the run fails
                 /\ ok' = FALSE /\ pc' = "idle" /\ nruns' = nruns + 1 /\ Mark("raised")
                 /\ UNCHANGED <<disk, temp, cfg, todo, refs, cur, returned>>
       ELSE \* miss (or undecodable entry treated as one): run the pipeline, then write
            /\ cur' = b /\ pc' = "write1"
            /\ UNCHANGED <<disk, temp, nruns, cfg, todo, refs, returned, hist, ok>>

\* open(..., "w") truncates the target (in place) or creates the temp file
Write1 ==
    /\ pc = "write1"
    /\ LET k == KeyOf(cur, cfg) IN
       IF AtomicWrite THEN temp' = [temp EXCEPT ![k] = FPartial] /\ UNCHANGED disk
                      ELSE disk' = [disk EXCEPT ![k] = FPartial] /\ UNCHANGED temp
    /\ pc' = "write2"
    /\ UNCHANGED <<nruns, cfg, todo, refs, cur, returned, hist, ok>>

\* json.dump completes
Write2 ==
    /\ pc = "write2"
    /\ LET k == KeyOf(cur, cfg) IN
       IF AtomicWrite THEN temp' = [temp EXCEPT ![k] = Full(cur, cfg)] /\ UNCHANGED disk
                      ELSE disk' = [disk EXCEPT ![k] = Full(cur, cfg)] /\ UNCHANGED temp
    /\ pc' = "write3"
    /\ UNCHANGED <<nruns, cfg, todo, refs, cur, returned, hist, ok>>

\* rename (atomic variant), then the batch result is handed to the caller
Write3 ==
    /\ pc = "write3"
    /\ LET k == KeyOf(cur, cfg) IN
       IF AtomicWrite THEN /\ disk' = [disk EXCEPT ![k] = temp[k]]
                           /\ temp' = [temp EXCEPT ![k] = FAbsent]
                      ELSE UNCHANGED <<disk, temp>>
    /\ Deliver(cur, <<cur, cfg>>)
    /\ todo' = Tail(todo) /\ pc' = "lookup"
    /\ UNCHANGED <<nruns, cfg, refs, cur, hist>>

\* the process is killed: nothing is returned, the directory stays as it is
Crash ==
    /\ pc \in {"lookup", "write1", "write2", "write3"}
    /\ pc' = "idle" /\ nruns' = nruns + 1 /\ Mark("killed")
    /\ UNCHANGED <<disk, temp, cfg, todo, refs, cur, returned, ok>>

Next == StartRun \/ FinishRun \/ Lookup \/ Write1 \/ Write2 \/ Write3 \/ Crash
Spec == Init /\ [][Next]_vars

CacheTransparent == ok
\* final files are never left truncated by the atomic variant
FinalFilesWhole == AtomicWrite => \A k \in KeySpace : disk[k].kind # "partial"
\* an entry only ever holds the result of its own key
EntriesMatchKeys == KeyIncludesConfig =>
    \A k \in KeySpace : IsFull(disk[k]) => KeyOf(disk[k].b, disk[k].c) = k
=============================================================================
