---------------------------- MODULE AtomMap_Trace ----------------------------
(* C15: real remove_atom_mapping calls.                                          *)
(*  "atom": one bracket-atom form of the bounded model rendered as a molecule;    *)
(*          same = RDKit identity of (input with maps cleared) and output agree.  *)
(*  "mol" : one molecule / reaction of the mapped corpus or the generators.       *)
(* The specification classifies a failing atom form: hypervalent hydrides are the *)
(* forms on which the as-built regular expression is known to change the molecule.*)
EXTENDS AtomMap, Json, IOUtils

Log == ndJsonDeserialize(IOEnv.TRACE_FILE)
VARIABLES i, bad
tvars == <<i, bad>>
Fails(e, clause, ok) == IF ok THEN <<>> ELSE << <<e.id, clause>> >>

JudgeAtom(e) ==
    LET a == e.atom
        sfx == IF HypervalentHydride(a, e.ctx) THEN "/hypervalent-hydride" ELSE ""
    IN   Fails(e, "MoleculeUnchanged" \o sfx, e.closed => e.same)
      \o Fails(e, "NoMapNumberLeft", e.residual = 0)
      \o Fails(e, "OutputParses" \o sfx, e.closed => e.out_parses)
      \* model conformance: the token the model predicts (bracket kept or dropped)
      \o Fails(e, "DRIFT_BracketPrediction", e.out_bracketed = RemoveMap(a, e.ctx).bracket)

JudgeMol(e) ==
       Fails(e, "MoleculeUnchanged", e.closed => e.same)
    \o Fails(e, "NoMapNumberLeft", e.residual = 0)
    \o Fails(e, "OutputParses", e.closed => e.out_parses)

Judge(e) == CASE e.ev = "atom" -> JudgeAtom(e)
              [] e.ev = "mol" -> JudgeMol(e)
              [] OTHER -> << <<e.id, "UnknownEvent">> >>
TInit == i = 1 /\ bad = <<>> /\ TLCSet(1, <<>>)
TNext == /\ i <= Len(Log)
         /\ i' = i + 1
         /\ bad' = bad \o Judge(Log[i])
         /\ TLCSet(1, bad')
TSpec == TInit /\ [][TNext]_tvars
Post == JsonSerialize(IOEnv.VERDICT_FILE,
          [consumed |-> TLCGet("stats").diameter - 1, total |-> Len(Log), bad |-> TLCGet(1)])
=============================================================================
