CONSTANTS
  MaxAtoms = 4
  Elements = {"C", "N", "O", "S"}
  AllowRing = TRUE
  CheckRenumbering = TRUE
SPECIFICATION Spec
INVARIANT Complete
INVARIANT Sound
INVARIANT RenumberingInvariant
CHECK_DEADLOCK FALSE
