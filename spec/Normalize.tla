------------------------------ MODULE Normalize ------------------------------
(***************************************************************************)
(* normalize_smiles / wc_similarity (SynUtils/chem_utils.py:159-248), C17.  *)
(* A molecule is an abstract id; Can[m] is its canonical text (spelling and *)
(* atom order are gone after canonicalisation), Key[m] the pair the code    *)
(* sorts by (atom count, sum of character codes) folded into one integer.   *)
(* A side is a sequence of molecules as written by the user. The normal     *)
(* form is the sequence of canonical texts sorted by key, descending, with  *)
(* a STABLE sort. TotalSortKey = TRUE adds the canonical text itself as     *)
(* last key component (the repaired code); FALSE is the as-built code.      *)
(***************************************************************************)
EXTENDS Integers, Sequences, FiniteSets, TLC

CONSTANTS Mols, Key, Can, TotalSortKey, MaxLen

\* descending order used by sort(reverse=True): a sorts before b
Before(a, b) ==
    IF Key[a] # Key[b] THEN Key[a] > Key[b]
    ELSE IF TotalSortKey THEN Can[a] > Can[b] ELSE FALSE   \* ties keep input order (stable)

\* stable insertion sort (Python's sort with reverse=True keeps the order of equal keys)
RECURSIVE Insert(_, _)
Insert(sorted, m) ==
    IF sorted = <<>> THEN <<m>>
    ELSE IF Before(m, Head(sorted)) THEN <<m>> \o sorted
    ELSE <<Head(sorted)>> \o Insert(Tail(sorted), m)
RECURSIVE Sort(_)
Sort(s) == IF s = <<>> THEN <<>> ELSE Insert(Sort(SubSeq(s, 1, Len(s) - 1)), s[Len(s)])

Normal(s) == [j \in 1..Len(Sort(s)) |-> Can[Sort(s)[j]]]
\* normalising a normal form: every text is already canonical (Can is idempotent)
Renormal(s) == Normal(Sort(s))

Perms(s) == {p \in [1..Len(s) -> 1..Len(s)] : \A a, b \in 1..Len(s) : a # b => p[a] # p[b]}
Permuted(s, p) == [j \in 1..Len(s) |-> s[p[j]]]

VARIABLES side
vars == <<side>>
Init == side \in UNION {[1..n -> Mols] : n \in 1..MaxLen}
Next == UNCHANGED vars
Spec == Init /\ [][Next]_vars

Idempotent == Renormal(side) = Normal(side)
PermutationInvariant == \A p \in Perms(side) : Normal(Permuted(side, p)) = Normal(side)
\* two sides with the same multiset of molecules compare as identical, so the
\* similarity short-circuit returns exactly 1
ShortCircuit == \A p \in Perms(side) : Normal(Permuted(side, p)) = Normal(side)
=============================================================================
