CONSTANTS
  Syms = {"C", "N", "O", "S", "P", "F", "Cl", "Si", "Mg"}
  FgNames = {"ether", "ester", "amid", "thioether", "keton", "alcohol", "thioester"}
  LoopMode = "all"
SPECIFICATION Spec
INVARIANT TwoBoundariesClosed
INVARIANT TwoBoundariesOrderFree
INVARIANT AlwaysAMergeRule
INVARIANT CompletionWellFormed
INVARIANT ExpansionsCarbonFree
INVARIANT RoundTripExceptions
INVARIANT RestrictionOnlyHetero
CHECK_DEADLOCK FALSE
