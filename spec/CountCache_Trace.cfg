CONSTANTS
  Tokens <- MCTokens
  Atoms = {"C", "O"}
  Objs = {"o1", "o2"}
  Scope = "object"
  MaxCalls = 5
SPECIFICATION TSpec
POSTCONDITION Post
CHECK_DEADLOCK FALSE
