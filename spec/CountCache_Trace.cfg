CONSTANTS
  TokenIds = {"OO", "acetone", "MeOH", "ethane"}
  Atoms = {"C", "O"}
  Objs = {"o1", "o2"}
  Scope = "object"
  MaxCalls = 5
  TC <- MCTrue
SPECIFICATION TSpec
POSTCONDITION Post
CHECK_DEADLOCK FALSE
