CONSTANTS
  RecheckAfterTemplate = TRUE
  MaxAdded = 3
  Thresholds = {0, 1, 2}
  IncomingSolved = {FALSE, TRUE}
  ResetIncoming = FALSE
  ConfStrict = FALSE
SPECIFICATION Spec
INVARIANT C01_SolvedBalanced
CHECK_DEADLOCK FALSE
