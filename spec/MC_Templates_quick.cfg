CONSTANTS
  MaxN = 2
  RequireNeutral = TRUE
SPECIFICATION Spec
INVARIANT InvPreserves
CHECK_DEADLOCK FALSE
