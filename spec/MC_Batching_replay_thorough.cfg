CONSTANTS
  KeepMalformedRows = TRUE
  ParseGuard = TRUE
  MaxLen = 4
  BatchSizes = {0, 1, 2, 3, 4, 5}
  Kinds = {"ok", "unparsable", "nosep"}
SPECIFICATION Spec
INVARIANT OneRowPerInput
INVARIANT InOrder
INVARIANT CliPassThroughAligned
INVARIANT ReactionCountIsInputCount
INVARIANT NothingLost
INVARIANT EveryInputConsumedOnce
CHECK_DEADLOCK FALSE
