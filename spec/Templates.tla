------------------------------ MODULE Templates ------------------------------
(***************************************************************************)
(* Reagent templates of the post-processing step                           *)
(* (SynChemImputer/curate_reduction.py:51-108, curate_oxidation.py:52-114, *)
(* reaction_template.json, compounds_template.json).                       *)
(*                                                                         *)
(* The rule-based stage completes a redox reaction with free-atom          *)
(* placeholders ([H] for a reduction, [O] for an oxidation). Post-          *)
(* processing replaces the placeholders by a named reagent system:         *)
(*   reduction : every PAIR of [H] is replaced by one copy of the template *)
(*               (reactants added on the left, by-products on the right);  *)
(*               an odd number of [H] leaves the reaction as it is;        *)
(*   oxidation : one copy per [O] for alcohol -> aldehyde / ketone and     *)
(*               aldehyde -> acid ("per_atom"); ONE copy whatever the      *)
(*               number of [O] for primary alcohol -> acid ("once").       *)
(* A template keeps a balanced reaction balanced exactly when what it adds *)
(* on the left minus what it adds on the right equals the placeholders it  *)
(* replaces. Templates for which this is false are why Pipeline.tla has    *)
(* the Recheck step (a solved row is restored when the template made it    *)
(* unbalanced).                                                            *)
(* Compositions are dictionaries as in Composition.tla (key Q = charge).   *)
(***************************************************************************)
EXTENDS Composition

RECURSIVE Times(_, _)
Times(d, n) == IF n = 0 THEN <<>> ELSE AddComp(d, Times(d, n - 1))
Neg(d) == [k \in DOMAIN d |-> 0 - d[k]]
Minus(d1, d2) == AddComp(d1, Neg(d2))

\* what one copy of the template contributes: left additions minus right additions
Delta(t) == Minus(SumComps(t.reactants), SumComps(t.products))

HAtom == [H |-> 1]
OAtom == [O |-> 1]
\* the placeholders one application replaces
Replaced(kind, mode, n) ==
    IF kind = "reduction" THEN Times(HAtom, 2)
    ELSE IF mode = "per_atom" THEN OAtom
    ELSE Times(OAtom, n)             \* "once": all n oxygen placeholders at one stroke
Copies(kind, mode, n) ==
    IF kind = "reduction" THEN n \div 2 ELSE IF mode = "per_atom" THEN n ELSE 1
Applies(kind, n) == IF kind = "reduction" THEN n > 0 /\ n % 2 = 0 ELSE n > 0

Neutral(t, kind, mode, n) == SameComp(Delta(t), Replaced(kind, mode, n))

\* a reaction: compositions of the two sides WITHOUT the n placeholder atoms, which sit on the left
Placeholders(kind, n) == Times(IF kind = "reduction" THEN HAtom ELSE OAtom, n)
BalancedWithPlaceholders(l, r, kind, n) == SameComp(AddComp(l, Placeholders(kind, n)), r)
After(l, r, t, kind, mode, n) ==
    [l |-> AddComp(l, Times(SumComps(t.reactants), Copies(kind, mode, n))),
     r |-> AddComp(r, Times(SumComps(t.products), Copies(kind, mode, n)))]
BalancedAfter(l, r, t, kind, mode, n) ==
    LET a == After(l, r, t, kind, mode, n) IN SameComp(a.l, a.r)

\* the design fact: a neutral template preserves balance (both ways)
PreservesBalance(l, r, t, kind, mode, n) ==
    (Applies(kind, n) /\ Neutral(t, kind, mode, n)) =>
        (BalancedWithPlaceholders(l, r, kind, n) <=> BalancedAfter(l, r, t, kind, mode, n))
=============================================================================
