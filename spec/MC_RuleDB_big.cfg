CONSTANTS
  Mutation = "none"
  MaxOps = 4
SPECIFICATION Spec
INVARIANT InvConsistent
PROPERTY NeverMoreClashes
PROPERTY OthersUndisturbed
PROPERTY RemoveRemovesNamed
PROPERTY RejectedUnchanged
CHECK_DEADLOCK FALSE
