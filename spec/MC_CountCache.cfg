CONSTANTS
  Tokens <- MCTokens
  Atoms = {"C", "O"}
  Objs = {"o1", "o2"}
  Scope = "object"
  MaxCalls = 5
SPECIFICATION Spec
INVARIANT AnswersAreTrue
INVARIANT MemoSound
CHECK_DEADLOCK FALSE
