CONSTANTS
  RecheckAfterTemplate = TRUE
  MaxAdded = 8
  Thresholds = {0}
  ConfStrict = FALSE
SPECIFICATION TSpec
POSTCONDITION Post
CHECK_DEADLOCK FALSE
