CONSTANTS
  RecheckAfterTemplate = TRUE
  MaxAdded = 8
  Thresholds = {0}
  IncomingSolved = {FALSE}
  ResetIncoming = TRUE
  ConfStrict = FALSE
SPECIFICATION TSpec
POSTCONDITION Post
CHECK_DEADLOCK FALSE
