CONSTANTS
  MaxEntries = 2
  MaxSlots = 2
  MaxPieces = 2
  Th = 2
  Ids = {"a", "b"}
  Tokens = {"", "x", "y"}
  MaxConds = 3
  Num = 2
  Mutation = "last_quorum"
SPECIFICATION Spec
INVARIANT InvPositionFree
INVARIANT InvFailedJobUncertain
INVARIANT InvNeighboursIndependent
INVARIANT InvQuorum
INVARIANT InvFirstQuorum
INVARIANT InvKeepsFinalWithoutQuorum
INVARIANT InvIdsIndependent
CHECK_DEADLOCK FALSE
