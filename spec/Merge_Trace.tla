------------------------------ MODULE Merge_Trace ------------------------------
(* C09: real merge() calls on fragments cut from molecules by the harness.        *)
(*  "rules"  : the shipped merge / expand rule tables (normalised)                *)
(*  "merge2" : both fragments of one cut acyclic single bond                      *)
(*  "merge1" : one open fragment on its own                                       *)
(* Boundary descriptors (incl. functional-group membership as the rule conditions *)
(* see it) are logged, so that the reported rules can be explained by Merge.tla.  *)
EXTENDS Merge, Json, IOUtils

Log == ndJsonDeserialize(IOEnv.TRACE_FILE)
VARIABLES i, tabs, bad
tvars == <<i, tabs, bad>>
Fails(e, clause, ok) == IF ok THEN <<>> ELSE << <<e.id, clause>> >>

Common(e) ==
       Fails(e, "MergeDoesNotRaise", e.raised = "")
    \o (IF e.raised = "" THEN
             Fails(e, "ResultIsValidMolecule", e.parses)
          \o Fails(e, "NoOpenAttachmentPoint", e.open = 0)
          \o Fails(e, "CarbonConserved", e.parses => V(e.heavy, "C") = V(SumCounts(e.frag_heavy), "C"))
          \o Fails(e, "HeavyAtomsAccounted",
                   e.parses => SameCounts(e.heavy, AddCounts(SumCounts(e.frag_heavy), ExpansionHeavy(tabs.expand, e.rules))))
        ELSE <<>>)

JudgeMerge2(e) ==
    Common(e)
    \o (IF e.raised = "" /\ e.parses THEN
             Fails(e, "CutMergeRoundTrip", e.same \/ IsRestriction(tabs.merge, e.rules))
          \o Fails(e, "RestrictionKeepsFragmentsApart", IsRestriction(tabs.merge, e.rules) => e.ncomp = 2)
          \o Fails(e, "DRIFT_ReportedRulesExplained", e.rules = TwoRules(tabs.merge, e.b[1], e.b[2]))
        ELSE <<>>)

JudgeMerge1(e) ==
    LET bond == OneBond(tabs.merge, tabs.expand, e.b[1])
        comp == OneCompound(tabs.expand, e.b[1])
        named == {e.rules[j] : j \in 1..Len(e.rules)}
        expNamed == {tabs.expand[k].smiles : k \in {k \in 1..Len(tabs.expand) : tabs.expand[k].name \in named}}
    IN Common(e)
    \o (IF e.raised = "" /\ e.parses THEN
             \* the result is the fragment bonded to exactly the compound named by the reported
             \* expansion rule (kept apart if a restriction rule is reported, alone if nothing is reported)
             Fails(e, "CompletionMatchesReportedRule",
                   IF expNamed = {} THEN e.attached.alone
                   ELSE IF IsRestriction(tabs.merge, e.rules)
                        THEN (("O" \in expNamed /\ e.attached.apart_O) \/ ("I" \in expNamed /\ e.attached.apart_I))
                        ELSE (("O" \in expNamed /\ e.attached.bonded_O) \/ ("I" \in expNamed /\ e.attached.bonded_I)))
          \o Fails(e, "AtMostOneExpansion", Cardinality(expNamed) <= 1)
          \o Fails(e, "DRIFT_ReportedRulesExplained", e.rules = OneRules(tabs.merge, tabs.expand, e.b[1]))
        ELSE <<>>)

\* a fragment with two attachment points completed on its own: every boundary is expanded or closed, the heavy
\* atoms are those of the fragment plus the compounds named by the reported rules; which rules are reported is
\* predicted boundary by boundary (model conformance)
JudgeMerge1m(e) ==
    Common(e)
    \o (IF e.raised = "" /\ e.parses
        THEN Fails(e, "DRIFT_ReportedRulesExplained",
                   BagOfSeq(e.rules) = BagOfSeq(ManyRules(tabs.merge, tabs.expand, e.b, 1, "all")))
        ELSE <<>>)

\* a compound set that also holds compounds without attachment point: they come out unchanged next to the merged
\* product, and the atom bookkeeping includes them
JudgeMergeS(e) ==
    Common(e)
    \o (IF e.raised = "" /\ e.parses THEN Fails(e, "SpectatorsKept", e.spectators_kept) ELSE <<>>)

Judge(e) == CASE e.ev = "rules" -> <<>>
              [] e.ev = "merge_s" -> JudgeMergeS(e)
              [] e.ev = "merge_u" -> Common(e)      \* end fragment + middle fragment: the atom bookkeeping with the reported rules
              [] e.ev = "merge1m" -> JudgeMerge1m(e)
              [] e.ev = "merge2" -> JudgeMerge2(e)
              [] e.ev = "merge1" -> JudgeMerge1(e)
              [] OTHER -> << <<e.id, "UnknownEvent">> >>
TInit == i = 1 /\ tabs = [merge |-> <<>>, expand |-> <<>>] /\ bad = <<>> /\ TLCSet(1, <<>>)
TNext == /\ i <= Len(Log)
         /\ i' = i + 1
         /\ LET e == Log[i] IN
            /\ tabs' = IF e.ev = "rules" THEN [merge |-> e.merge, expand |-> e.expand] ELSE tabs
            /\ bad' = bad \o Judge(e)
         /\ TLCSet(1, bad')
TSpec == TInit /\ [][TNext]_tvars
Post == JsonSerialize(IOEnv.VERDICT_FILE,
          [consumed |-> TLCGet("stats").diameter - 1, total |-> Len(Log), bad |-> TLCGet(1)])
=============================================================================
