----------------------------- MODULE Context_Trace -----------------------------
(* C06: a reaction's result row and its contribution to the statistics do not  *)
(* depend on what else is in the batch, on the order, batch size or worker     *)
(* count. "solo" events bind Outcome[input] (row + statistics of the call that *)
(* processed that input alone); every later "run" event (same inputs, some     *)
(* permutation / partition / worker count) is compared row by row with         *)
(* Outcome and its statistics with the sum of the solo statistics.             *)
EXTENDS Integers, Sequences, FiniteSets, TLC, Json, IOUtils

Log == ndJsonDeserialize(IOEnv.TRACE_FILE)
VARIABLES i, outcome, bad
tvars == <<i, outcome, bad>>

StatKeys == {"reaction_cnt", "balanced_cnt", "rb_applied", "rb_solved", "mcs_applied", "mcs_solved",
             "confident_cnt"}
SV(st, k) == IF k \in DOMAIN st THEN st[k] ELSE 0
Fails(e, pos, clause, ok) == IF ok THEN <<>> ELSE << <<e.id, pos, clause>> >>

Known(k) == k \in DOMAIN outcome

JudgeRow(e, pos) ==
    LET x == e.rows[pos] IN
    IF ~Known(x.key) THEN << <<e.id, pos, "UnknownInput">> >>
    ELSE LET o == outcome[x.key].row IN
           Fails(e, pos, "SameReaction", x.reaction = o.reaction)
        \o Fails(e, pos, "SameVerdict", x.solved = o.solved /\ x.by = o.by)
        \o Fails(e, pos, "SameConfidence", x.conf_raw = o.conf_raw)
        \o Fails(e, pos, "SameRules", x.rules = o.rules)
        \o Fails(e, pos, "SameIssue", x.issue = o.issue)
        \o Fails(e, pos, "SameInputEcho", x.input_reaction = o.input_reaction)

SumStat(e, k) ==
    LET F[j \in 0..Len(e.rows)] ==
          IF j = 0 THEN 0
          ELSE F[j - 1] + (IF Known(e.rows[j].key) THEN SV(outcome[e.rows[j].key].stats, k) ELSE 0)
    IN F[Len(e.rows)]

JudgeRun(e) ==
    LET R[j \in 0..Len(e.rows)] == IF j = 0 THEN <<>> ELSE R[j - 1] \o JudgeRow(e, j)
    IN R[Len(e.rows)]
       \o Fails(e, 0, "OneRowPerInput", Len(e.rows) = e.ninputs)
       \o Fails(e, 0, "StatsAreSumOfParts", \A k \in StatKeys : SV(e.stats, k) = SumStat(e, k))

TInit == i = 1 /\ outcome = <<>> /\ bad = <<>> /\ TLCSet(1, <<>>)
TNext == /\ i <= Len(Log)
         /\ i' = i + 1
         /\ LET e == Log[i] IN
            IF e.ev = "solo"
            THEN /\ outcome' = [k \in DOMAIN outcome \cup {e.key} |->
                                  IF k = e.key THEN [row |-> e.row, stats |-> e.stats] ELSE outcome[k]]
                 /\ bad' = bad
            ELSE /\ outcome' = outcome
                 /\ bad' = bad \o JudgeRun(e)
         /\ TLCSet(1, bad')
TSpec == TInit /\ [][TNext]_tvars
Post == JsonSerialize(IOEnv.VERDICT_FILE,
          [consumed |-> TLCGet("stats").diameter - 1, total |-> Len(Log), bad |-> TLCGet(1)])
=============================================================================
