CONSTANTS
  RecheckAfterTemplate = TRUE
  MaxAdded = 3
  Thresholds = {0, 1, 2}
  ConfStrict = FALSE
SPECIFICATION CSpec
ACTION_CONSTRAINT Record
POSTCONDITION Post
CHECK_DEADLOCK FALSE
