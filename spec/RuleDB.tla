------------------------------- MODULE RuleDB -------------------------------
(***************************************************************************)
(* RuleImputeManager (synrbl/SynRuleImputer/rule_data_manager.py), C19.     *)
(* The database is a sequence of records [formula, smiles]; whether a       *)
(* SMILES is valid and what its true composition is are oracle facts that   *)
(* the callers of these operators supply.                                   *)
(***************************************************************************)
EXTENDS Integers, Sequences, FiniteSets

HasFormula(db, f) == \E j \in 1..Len(db) : db[j].formula = f
HasSmiles(db, s)  == \E j \in 1..Len(db) : db[j].smiles = s

\* add_entry: rejected (ValueError) when the formula or the SMILES string is
\* already present or the SMILES is invalid; the database is then unchanged.
CanAdd(db, e, valid) == ~HasFormula(db, e.formula) /\ ~HasSmiles(db, e.smiles) /\ valid
Key(e) == [formula |-> e.formula, smiles |-> e.smiles]
AddResult(db, e, valid) == IF CanAdd(db, e, valid) THEN Append(db, Key(e)) ELSE db

\* add_entries: folds add_entry, returns the rejected entries in order
RECURSIVE AddAll(_, _)
AddAll(db, es) ==
    IF es = <<>> THEN <<db, <<>>>>
    ELSE LET e    == Head(es)
             ok   == CanAdd(db, e, e.valid)
             rest == AddAll(IF ok THEN Append(db, Key(e)) ELSE db, Tail(es))
         IN <<rest[1], IF ok THEN rest[2] ELSE <<Key(e)>> \o rest[2]>>

\* remove_entry: deletes the first entry with that formula and nothing else
FirstWith(db, f) == CHOOSE j \in 1..Len(db) :
                       db[j].formula = f /\ \A m \in 1..(j - 1) : db[m].formula # f
RemoveResult(db, f) ==
    IF HasFormula(db, f)
    THEN LET j == FirstWith(db, f) IN SubSeq(db, 1, j - 1) \o SubSeq(db, j + 1, Len(db))
    ELSE db

(* the invariant of the property *)
Consistent(db) ==
    \A a, b \in 1..Len(db) : a # b => db[a].formula # db[b].formula /\ db[a].smiles # db[b].smiles

\* number of ordered index pairs that clash; never increases (inductive form
\* of the invariant for databases that start out inconsistent)
Clashes(db) == Cardinality({<<a, b>> \in (1..Len(db)) \X (1..Len(db)) :
                  a < b /\ (db[a].formula = db[b].formula \/ db[a].smiles = db[b].smiles)})

IsPrefixOf(s, t) == Len(s) <= Len(t) /\ SubSeq(t, 1, Len(s)) = s
\* t is s with exactly the element at position j removed
RemovedOne(s, t) == \E j \in 1..Len(s) : t = SubSeq(s, 1, j - 1) \o SubSeq(s, j + 1, Len(s))
=============================================================================
