---------------------------- MODULE Constrain_Trace ----------------------------
(* Binds Constrain.tla to the code: every (input tokens, appended tokens) state of  *)
(* the bounded model is rendered as a product side and passed to the real           *)
(* RuleConstraint.reduction_oxidation_rules_modify; the returned product side is     *)
(* read back as tokens and compared with the model's literal semantics (drift) and   *)
(* with the property "no molecule of the input is removed or destroyed" (C02).       *)
EXTENDS Constrain, Json, IOUtils

Log == ndJsonDeserialize(IOEnv.TRACE_FILE)
VARIABLES i, bad
tvars == <<i, bad, inp, added>>   \* inp / added: Constrain's own variables, unused here
Fails(e, clause, ok) == IF ok THEN <<>> ELSE << <<e.id, clause>> >>

CountIn(s, t) == Cardinality({k \in 1..Len(s) : s[k] = t})
Kept(e) == \A j \in 1..Len(e.inp) : CountIn(e.out, e.inp[j]) >= CountIn(e.inp, e.inp[j])
MarkerPrefixedInput(e) == \E j \in 1..Len(e.inp) : e.inp[j].head # ""

Judge(e) ==
       Fails(e, "DRIFT_LiteralModel", BagOf(e.out) = BagOf(Literal(e.inp \o e.added)))
    \o Fails(e, IF MarkerPrefixedInput(e) THEN "InputMoleculesKept/marker-prefixed-input" ELSE "InputMoleculesKept",
             Kept(e))
    \o Fails(e, "OrderOfInputIrrelevant", MarkerPrefixedInput(e) \/ e.same_as_reversed)

TInit == i = 1 /\ bad = <<>> /\ inp = <<>> /\ added = <<>> /\ TLCSet(1, <<>>)
TNext == /\ i <= Len(Log) /\ i' = i + 1 /\ bad' = bad \o Judge(Log[i]) /\ TLCSet(1, bad')
         /\ UNCHANGED <<inp, added>>
TSpec == TInit /\ [][TNext]_tvars
Post == JsonSerialize(IOEnv.VERDICT_FILE,
          [consumed |-> TLCGet("stats").diameter - 1, total |-> Len(Log), bad |-> TLCGet(1)])
=============================================================================
