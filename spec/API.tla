-------------------------------- MODULE API --------------------------------
(***************************************************************************)
(* The observable contract of Balancer.rebalance(): every clause is a       *)
(* literal rendering of a sentence of a property statement (C01-C04, C13,   *)
(* C15, C18) over what a caller sees: the argument, the returned row and    *)
(* the statistics. Chemistry enters only as facts computed by the RDKit     *)
(* oracle: a side is a sequence of molecule identities (small integers) and *)
(* a composition dictionary with a charge.                                  *)
(*                                                                         *)
(* facts record: [parses, l, r, lcomp, rcomp, lq, rq]                      *)
(* row record  : [arg, echo, out : facts; solved : BOOLEAN; by, issue,      *)
(*                reaction, input_reaction : STRING; conf, threshold : Int; *)
(*                nomap : BOOLEAN; placeholder : BOOLEAN]                   *)
(***************************************************************************)
EXTENDS Composition

Absent == "ABSENT"
Methods == {"input-balanced", "rule-based", "mcs-based"}

Count(seq, x) == Cardinality({j \in 1..Len(seq) : seq[j] = x})
SubBag(a, b)  == \A j \in 1..Len(a) : Count(a, a[j]) <= Count(b, a[j])
SameBag(a, b) == Len(a) = Len(b) /\ SubBag(a, b)

FBalanced(f) == f.parses /\ SameComp(f.lcomp, f.rcomp) /\ f.lq = f.rq
SameMolecules(f, g) == f.parses /\ g.parses /\ SameBag(f.l, g.l) /\ SameBag(f.r, g.r)
HasAtLeast(f, g) == f.parses /\ g.parses /\ SubBag(g.l, f.l) /\ SubBag(g.r, f.r)  \* f has at least g
NC(c) == V(c, "C")

(* C01 *)
SolvedBalanced(x) == x.solved => FBalanced(x.out)

(* C02 *)
OnlyAdds(x)  == (x.arg.parses /\ ~x.placeholder) => HasAtLeast(x.out, x.arg)
\* (keep_maps: the call was made with remove_aam = False, the maps of the input are then meant to stay)
InputEcho(x) == (x.arg.parses /\ ~x.placeholder) => SameMolecules(x.echo, x.arg) /\ (x.echo_nomap \/ x.keep_maps)

(* C03 (default threshold) *)
DeclinedUntouched(x) == (x.threshold = 0 /\ ~x.solved) => x.reaction = x.input_reaction
DeclinedHasReason(x) == ~x.solved => x.issue # Absent /\ x.issue # ""
SolvedNamesMethod(x) == x.solved => x.by \in Methods /\ x.issue \in {"", Absent}
CarbonDeficitDeclined(x) ==
    (x.arg.parses /\ NC(x.arg.rcomp) > NC(x.arg.lcomp)) => ~x.solved

(* C04 *)
\* (inputs with free atomic H / O placeholders are not closed-shell molecules and
\* are outside the quantifier: the atom-map regex rewrites [O] to O)
BalancedPassThrough(x) ==
    (FBalanced(x.arg) /\ ~x.placeholder) => /\ x.solved /\ x.by = "input-balanced"
                        /\ SameMolecules(x.out, x.arg)
                        /\ x.reaction = x.input_reaction
OnlyBalancedLabelled(x) ==
    (x.by = "input-balanced" /\ ~x.placeholder) => FBalanced(x.arg) /\ SameMolecules(x.out, x.arg) /\ x.solved

(* C15, output half *)
NoMapInOutput(x) == x.nomap \/ x.keep_maps

(* C13, single-run half; conf in thousandths, -1 when absent; thr likewise *)
ConfInRange(x) == x.by = "mcs-based" => x.conf >= 0 /\ x.conf <= 1000
OnlyMcsScored(x) == x.conf # -1 => x.by = "mcs-based"

RowClauses(x) ==
    << <<"SolvedBalanced", SolvedBalanced(x)>>,
       <<"OnlyAdds", OnlyAdds(x)>>,
       <<"InputEcho", InputEcho(x)>>,
       <<"DeclinedUntouched", DeclinedUntouched(x)>>,
       <<"DeclinedHasReason", DeclinedHasReason(x)>>,
       <<"SolvedNamesMethod", SolvedNamesMethod(x)>>,
       <<"CarbonDeficitDeclined", CarbonDeficitDeclined(x)>>,
       <<"BalancedPassThrough", BalancedPassThrough(x)>>,
       <<"OnlyBalancedLabelled", OnlyBalancedLabelled(x)>>,
       <<"NoMapInOutput", NoMapInOutput(x)>>,
       <<"ConfInRange", ConfInRange(x)>>,
       <<"OnlyMcsScored", OnlyMcsScored(x)>> >>

(* C18: run statistics against the rows of the run. rows: sequence of        *)
(* [solved, by]; st: the statistics dictionary (absent key = 0); ninputs:    *)
(* number of input rows given to the call.                                   *)
NumRows(rows, P(_)) == Cardinality({j \in 1..Len(rows) : P(rows[j])})
StatsClauses(rows, st, ninputs) ==
    LET IsBal(x) == x.by = "input-balanced"
        IsRb(x)  == x.by = "rule-based"
        IsMcs(x) == x.by = "mcs-based"
        IsMcsSolved(x) == x.solved /\ x.by = "mcs-based"
        NotBefore(x) == x.by \notin {"input-balanced", "rule-based"}
    IN << <<"ReactionCount", V(st, "reaction_cnt") = ninputs>>,
          <<"BalancedCount", V(st, "balanced_cnt") = NumRows(rows, IsBal)>>,
          <<"ConfidentCount", V(st, "confident_cnt") = NumRows(rows, IsMcsSolved)>>,
          <<"McsAppliedCount", V(st, "mcs_applied") = NumRows(rows, NotBefore)>>,
          <<"RbSolvedLeApplied", V(st, "rb_solved") <= V(st, "rb_applied")>>,
          <<"McsSolvedLeApplied", V(st, "mcs_solved") <= V(st, "mcs_applied")>>,
          <<"RbSolvedGeRows", V(st, "rb_solved") >= NumRows(rows, IsRb)>>,
          <<"McsSolvedGeRows", V(st, "mcs_solved") >= NumRows(rows, IsMcs)>> >>
=============================================================================
