---------------------------- MODULE MC_Normalize ----------------------------
EXTENDS Normalize
\* five molecules; m2/m3 tie on the sort key (isomers whose canonical SMILES are
\* anagrams, e.g. CCCO / CCOC), m4/m5 tie as well
MCMols == {"m1", "m2", "m3", "m4", "m5"}
MCKey == [m \in MCMols |-> CASE m = "m1" -> 9 [] m = "m2" -> 5 [] m = "m3" -> 5 [] m = "m4" -> 2 [] m = "m5" -> 2]
MCCan == [m \in MCMols |-> CASE m = "m1" -> 11 [] m = "m2" -> 22 [] m = "m3" -> 33 [] m = "m4" -> 44 [] m = "m5" -> 55]
=============================================================================
