---------------------------- MODULE Threshold_Trace ----------------------------
(* C13: families of real rebalance() runs of the same inputs under different   *)
(* confidence thresholds. The first event of a family ("ref", threshold 0)     *)
(* binds the reference rows; every later run of the family is compared row by  *)
(* row. conf is in thousandths (-1 = no confidence reported); c_ge_t is the     *)
(* exact comparison of the reported confidence with the threshold passed,      *)
(* computed in double precision on the recorded values.                        *)
EXTENDS Integers, Sequences, FiniteSets, TLC, Json, IOUtils

Log == ndJsonDeserialize(IOEnv.TRACE_FILE)
VARIABLES i, ref, bad
tvars == <<i, ref, bad>>

Fails(e, pos, clause, ok) == IF ok THEN <<>> ELSE << <<e.id, pos, clause>> >>

JudgeRow(e, pos) ==
    LET x == e.rows[pos]
        r == ref[pos]
        mcs == x.by = "mcs-based"
    IN   Fails(e, pos, "ConfInRange", mcs => (x.conf >= 0 /\ x.conf <= 1000))
      \o Fails(e, pos, "ConfIndependentOfThreshold", x.conf = r.conf /\ x.conf_raw = r.conf_raw)
      \o Fails(e, pos, "Boundary", mcs => (x.solved <=> x.c_ge_t))
      \o Fails(e, pos, "DemotedNamesThreshold", (mcs /\ ~x.solved) => x.issue_names_t)
      \o Fails(e, pos, "MethodIndependentOfThreshold", x.by = r.by)
      \o Fails(e, pos, "ReactionIndependentOfThreshold", x.reaction = r.reaction)
      \o Fails(e, pos, "OthersUntouched",
               ~mcs => (x.solved = r.solved /\ x.issue = r.issue /\ x.conf = -1))
      \o Fails(e, pos, "KeptRowsUntouched", (mcs /\ x.solved) => x.issue = r.issue)
      \o Fails(e, pos, "Monotone", x.solved => r.solved)

JudgeRun(e) ==
    IF Len(e.rows) # Len(ref) THEN << <<e.id, 0, "SameNumberOfRows">> >>
    ELSE LET F[j \in 0..Len(e.rows)] == IF j = 0 THEN <<>> ELSE F[j - 1] \o JudgeRow(e, j)
         IN F[Len(e.rows)]

JudgeRef(e) ==
    LET F[j \in 0..Len(e.rows)] ==
          IF j = 0 THEN <<>>
          ELSE F[j - 1]
               \o Fails(e, j, "ConfInRange",
                        e.rows[j].by = "mcs-based" => (e.rows[j].conf >= 0 /\ e.rows[j].conf <= 1000))
               \o Fails(e, j, "DefaultThresholdKeepsAll",
                        e.rows[j].by = "mcs-based" => e.rows[j].solved)
    IN F[Len(e.rows)]

TInit == i = 1 /\ ref = <<>> /\ bad = <<>> /\ TLCSet(1, <<>>)
TNext == /\ i <= Len(Log)
         /\ i' = i + 1
         /\ LET e == Log[i] IN
            IF e.ev = "ref"
            THEN ref' = e.rows /\ bad' = bad \o JudgeRef(e)
            ELSE ref' = ref /\ bad' = bad \o JudgeRun(e)
         /\ TLCSet(1, bad')
TSpec == TInit /\ [][TNext]_tvars
Post == JsonSerialize(IOEnv.VERDICT_FILE,
          [consumed |-> TLCGet("stats").diameter - 1, total |-> Len(Log), bad |-> TLCGet(1)])
=============================================================================
