----------------------------- MODULE Uncertainty -----------------------------
(***************************************************************************)
(* The labelling step that closes find_graph_dict                           *)
(* (SynMCSImputer/MissingGraph/find_graph_dict.py:106):                      *)
(*   GraphMissingUncertainty.fit (uncertainty_graph.py:77-99) and, for the   *)
(*   library user, RefinementUncertainty.fit (refinement_uncertainty.py).    *)
(*                                                                          *)
(* Part 1 - GraphMissingUncertainty.  An entry of the list is the result of *)
(* one fragment-analysis job.  Only two facts of an entry matter:            *)
(*   b : sequence of BOOLEAN, b[i] = TRUE iff boundary slot i is None        *)
(*   s : sequence of naturals, s[i] = 0 iff smiles slot i is None, otherwise *)
(*       the number of dot-separated pieces of the SMILES in slot i.         *)
(* A job that failed or timed out leaves both sequences empty (the default   *)
(* output of process_single_pair).  The code scans the list twice, collects  *)
(* positions in two index lists (the second with repetitions), concatenates  *)
(* them and marks entry k certain iff k is in neither.                       *)
(*                                                                          *)
(* Part 2 - RefinementUncertainty.  Per id, the smiles lists found under     *)
(* several search conditions are compared; the first condition whose list    *)
(* occurs at least IntersectionNum times supplies the entry, otherwise the   *)
(* entry of the final graph is kept.  A smiles list is abstracted to a token *)
(* ("" = the empty list, which Python treats as false).                      *)
(***************************************************************************)
EXTENDS Integers, Sequences, FiniteSets, TLC

\* ---- Part 1 ---------------------------------------------------------------
\* the two scans of the implementation, as index collections
WithoutBoundary(l) == {k \in DOMAIN l : \A i \in DOMAIN l[k].b : l[k].b[i]}
\* check_fragments appends k once per offending slot: a bag, kept as a function k -> multiplicity
FragmentHits(l, th) == [k \in DOMAIN l |-> Cardinality({i \in DOMAIN l[k].s : l[k].s[i] # 0 /\ l[k].s[i] >= th})]
GraphUncertain(l, th) == {k \in DOMAIN l : FragmentHits(l, th)[k] > 0}
\* what fit() writes, given how membership in the concatenated list is decided
MarkWith(l, th, member(_)) == [k \in DOMAIN l |-> ~member(k)]
Fit(l, th) == LET U == WithoutBoundary(l) \cup GraphUncertain(l, th)
              IN  MarkWith(l, th, LAMBDA k : k \in U)

\* the meaning, entry by entry, with no reference to positions
HasBoundary(e) == \E i \in DOMAIN e.b : ~e.b[i]
ManyPieces(e, th) == \E i \in DOMAIN e.s : e.s[i] # 0 /\ e.s[i] >= th
Certain(e, th) == HasBoundary(e) /\ ~ManyPieces(e, th)
FailedJob(e) == e.b = <<>> /\ e.s = <<>>

\* ---- Part 2 ---------------------------------------------------------------
\* conds: sequence of functions id -> token; final: function id -> token
Count(conds, id, tok) == Cardinality({c \in DOMAIN conds : conds[c][id] = tok})
\* index of the condition that supplies the entry of id; 0 = the final graph is kept
Source(conds, id, num) ==
    LET \* the code stops at the FIRST list that occurs often enough, then tests its truth value:
        \* an empty list that occurs often enough shadows later non-empty ones
        first == {c \in DOMAIN conds : Count(conds, id, conds[c][id]) >= num}
    IN  IF first = {} THEN 0
        ELSE LET c0 == CHOOSE c \in first : \A d \in first : c <= d
             IN  IF conds[c0][id] = "" THEN 0 ELSE c0
Refined(conds, final, id, num) ==
    LET c == Source(conds, id, num) IN IF c = 0 THEN final[id] ELSE conds[c][id]
=============================================================================
