CONSTANTS
  MaxN = 2
  RequireNeutral = FALSE
SPECIFICATION Spec
INVARIANT InvPreserves
CHECK_DEADLOCK FALSE
