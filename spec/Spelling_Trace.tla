---------------------------- MODULE Spelling_Trace ----------------------------
(* C14: families of equivalent spellings of one reaction (random atom order,    *)
(* kekulised, atom maps added, molecules permuted within a side) run through the *)
(* real pipeline in one batch. members[1] is the reaction as found in the corpus;*)
(* l / r are the oracle identities of the input molecules, add_l / add_r those   *)
(* of the molecules the tool added.                                             *)
EXTENDS Integers, Sequences, FiniteSets, TLC, Json, IOUtils

Log == ndJsonDeserialize(IOEnv.TRACE_FILE)
VARIABLES i, bad
tvars == <<i, bad>>
Fails(e, pos, clause, ok) == IF ok THEN <<>> ELSE << <<e.id, pos, clause>> >>
Count(seq, x) == Cardinality({j \in 1..Len(seq) : seq[j] = x})
SameBag(a, b) == Len(a) = Len(b) /\ \A j \in 1..Len(a) : Count(a, a[j]) = Count(b, a[j])

CompositionDetermined(m) == m.solved /\ m.by \in {"input-balanced", "rule-based"}

JudgeFamily(e) ==
    LET m == e.members
        \* the property speaks about every reaction with a composition-determined outcome and
        \* all of its rewritings: any such member of the family is a reference for the others
        cds == {j \in 1..Len(m) : CompositionDetermined(m[j])}
        base == IF cds = {} THEN m[1] ELSE m[CHOOSE j \in cds : \A k \in cds : j <= k]
        F[j \in 0..Len(m)] ==
          IF j = 0 THEN <<>>
          ELSE F[j - 1]
               \o Fails(e, j, "HARNESS_VariantIsSameReaction", SameBag(m[j].l, m[1].l) /\ SameBag(m[j].r, m[1].r))
               \o (IF CompositionDetermined(base)
                   THEN Fails(e, j, "SameVerdict", m[j].solved = base.solved /\ m[j].by = base.by)
                        \o Fails(e, j, "SameAddedMolecules",
                                 (~e.redox_template /\ m[j].solved /\ m[j].by = base.by)
                                    => (SameBag(m[j].add_l, base.add_l) /\ SameBag(m[j].add_r, base.add_r)))
                        \* the reagent template is free, not the kind of completion: hydrogen / oxygen and its side
                        \o Fails(e, j, "SameRedoxKind",
                                 (m[j].solved /\ m[j].by = base.by) => m[j].redox_sig = base.redox_sig)
                   ELSE <<>>)
    IN F[Len(m)]

TInit == i = 1 /\ bad = <<>> /\ TLCSet(1, <<>>)
TNext == /\ i <= Len(Log)
         /\ i' = i + 1
         /\ bad' = bad \o JudgeFamily(Log[i])
         /\ TLCSet(1, bad')
TSpec == TInit /\ [][TNext]_tvars
Post == JsonSerialize(IOEnv.VERDICT_FILE,
          [consumed |-> TLCGet("stats").diameter - 1, total |-> Len(Log), bad |-> TLCGet(1)])
=============================================================================
