CONSTANTS
  Keys = {"reaction_cnt", "rb_solved", "mcs_applied"}
  MaxBatches = 3
  MaxVal = 1
  KeepMissingKeys = TRUE
SPECIFICATION Spec
INVARIANT TotalsAreSums
CHECK_DEADLOCK FALSE
