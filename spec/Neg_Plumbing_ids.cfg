CONSTANTS
  N = 4
  NC = 2
  IdOf <- IdShift
  UseZip = FALSE
SPECIFICATION Spec
INVARIANT OtherWriteBacks
CHECK_DEADLOCK FALSE
