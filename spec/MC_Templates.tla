---------------------------- MODULE MC_Templates ----------------------------
(* Bounded instance: small compositions over H, O and one reagent element M with *)
(* charge; templates with up to two reactant and two product compounds.          *)
EXTENDS Templates
CONSTANTS MaxN, RequireNeutral

Els == {"H", "O", "M"}
Small == {[H |-> h, O |-> o, M |-> m, Q |-> q] : h \in 0..MaxN, o \in 0..1, m \in 0..1, q \in {-1, 0, 1}}
Tpls == {[reactants |-> <<a>>, products |-> <<b>>] : a \in Small, b \in Small}

VARIABLES l, r, t, kind, mode, n
vars == <<l, r, t, kind, mode, n>>
Init == /\ kind \in {"reduction", "oxidation"}
        /\ mode \in {"per_atom", "once"}
        /\ n \in 0..3
        /\ t \in Tpls
        /\ l \in {[H |-> h, O |-> o] : h \in 0..2, o \in 0..1}
        /\ r \in {[H |-> h, O |-> o] : h \in 0..MaxN, o \in 0..MaxN}
Next == UNCHANGED vars
Spec == Init /\ [][Next]_vars

InvPreserves ==
    IF RequireNeutral THEN PreservesBalance(l, r, t, kind, mode, n)
    ELSE \* the wrong reading: any template keeps a balanced reaction balanced
         Applies(kind, n) => (BalancedWithPlaceholders(l, r, kind, n) => BalancedAfter(l, r, t, kind, mode, n))
=============================================================================
