CONSTANTS
  Keys = {"reaction_cnt", "rb_solved", "mcs_applied"}
  MaxBatches = 3
  MaxVal = 2
  KeepMissingKeys = FALSE
SPECIFICATION Spec
INVARIANT TotalsAreSums
INVARIANT NoInventedKeys
CHECK_DEADLOCK FALSE
