CONSTANTS
  Batches = {"b1", "b2"}
  Cfgs = {"t0", "t5"}
  MaxRuns = 3
  MaxBatchesPerRun = 2
  KeyIncludesConfig = TRUE
  AtomicWrite = TRUE
  BatchKey <- TwinKey
  TolerantLoad = TRUE
SPECIFICATION Spec
INVARIANT CacheTransparent
CHECK_DEADLOCK FALSE
