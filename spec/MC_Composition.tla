-------------------------- MODULE MC_Composition --------------------------
(* Exhaustive check of the comparison logic over all pairs of composition *)
(* dictionaries on a small key set (every key absent or present).         *)
EXTENDS Composition

CONSTANTS Elems, MaxN, MaxQ, QZero, Mutation

\* values a key may take in a dictionary produced by decompose (QZero = FALSE):
\* elements 1..MaxN, charge -MaxQ..MaxQ without 0. With QZero = TRUE the
\* charge key may also be stored as 0 (the BothSideReact domain).
QVals == IF QZero THEN -MaxQ..MaxQ ELSE (-MaxQ..MaxQ) \ {0}
Dicts == UNION { { d \in [S -> -MaxQ..MaxN] :
                     \A k \in S : IF k = QK THEN d[k] \in QVals ELSE d[k] \in 1..MaxN }
                 : S \in SUBSET (Elems \cup {QK}) }

VARIABLES r, p, verdict, diff
vars == <<r, p, verdict, diff>>

Init == /\ r \in Dicts /\ p \in Dicts
        /\ verdict = MathVerdict(r, p)
        /\ diff = MathDiff(r, p)
Next == UNCHANGED vars
Spec == Init /\ [][Next]_vars

\* a deliberately wrong transcription (>= weakened to >) used by Neg_Composition.cfg
\* to show that the invariants are not vacuous
CompareStrict(a, b) ==
    IF DOMAIN a = DOMAIN b /\ ~(\A k \in DOMAIN a : a[k] = b[k]) /\ (\A k \in DOMAIN a : a[k] > b[k])
    THEN "Products"
    ELSE IF DOMAIN a = DOMAIN b /\ (\A k \in DOMAIN a : a[k] >= b[k]) /\ ~(\A k \in DOMAIN a : a[k] = b[k])
    THEN "Both" ELSE CompareAlgo(a, b)
Cmp(a, b) == IF Mutation = "strict" THEN CompareStrict(a, b) ELSE CompareAlgo(a, b)

InvVerdict   == VerdictAgrees(r, p, Cmp(r, p))
InvDiff      == DiffAgrees(r, p, DiffAlgo(r, p))
InvBothSide  == BothSideConserves(r, p, BothSideAlgo(r, p))
InvWater     == WaterConserves(r, p, Classify(r, p))
InvBalanceIsExact == (CompareAlgo(r, p) = "Balance") <=> SameComp(r, p)
=============================================================================
