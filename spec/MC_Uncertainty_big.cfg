CONSTANTS
  MaxEntries = 3
  MaxSlots = 2
  MaxPieces = 2
  Th = 2
  Ids = {"a", "b"}
  Tokens = {"", "x", "y", "z"}
  MaxConds = 4
  Num = 2
  Mutation = "none"
SPECIFICATION Spec
INVARIANT InvPositionFree
INVARIANT InvFailedJobUncertain
INVARIANT InvNeighboursIndependent
INVARIANT InvQuorum
INVARIANT InvFirstQuorum
INVARIANT InvKeepsFinalWithoutQuorum
INVARIANT InvIdsIndependent
CHECK_DEADLOCK FALSE
