------------------------------ MODULE MC_Merge ------------------------------
(* Every pair of boundary descriptors over a symbol / neighbour / functional-   *)
(* group alphabet against the shipped rule tables (transcribed from             *)
(* merge_rules.json and expand_rules.json): the merge always finds a rule, the   *)
(* single-fragment completion either has no expansion or ends in a merge rule,   *)
(* expansion compounds carry no carbon, and the descriptor pairs that do NOT     *)
(* lead to "one single bond" are exactly those of the listed rules.              *)
EXTENDS Merge

C(ap, an, np, nn, fp, fn, pp, pn, sp, sn) ==
    [atom_pos |-> ap, atom_neg |-> an, nb_pos |-> np, nb_neg |-> nn, fg_pos |-> fp, fg_neg |-> fn,
     pat_pos |-> pp, pat_neg |-> pn, src_pos |-> sp, src_neg |-> sn]
AnyC == C(<<>>, <<>>, <<>>, <<>>, <<>>, <<>>, <<>>, <<>>, <<>>, <<>>)
Hal == <<"N", "O", "F", "Cl", "Br", "I">>
Carbonyl == <<"keton", "aldehyde", "ester", "acid", "amid">>

MRules == <<
  [name |-> "phosphor double bond change", c1 |-> C(<<"O">>, <<>>, <<>>, <<>>, Carbonyl, <<>>, <<>>, <<>>, <<>>, <<>>),
     c2 |-> C(<<"P">>, <<>>, <<>>, <<>>, <<>>, <<>>, <<"P=O">>, <<>>, <<>>, <<>>), bond |-> "double"],
  [name |-> "phosphor double bond", c1 |-> C(<<"O">>, <<>>, <<>>, <<>>, Carbonyl, <<>>, <<>>, <<>>, <<>>, <<>>),
     c2 |-> C(<<"P">>, <<>>, <<>>, <<>>, <<>>, <<>>, <<>>, <<"P=O">>, <<>>, <<>>), bond |-> "double"],
  [name |-> "phosphor single bond", c1 |-> C(<<"O">>, <<>>, <<>>, <<>>, <<"enol", "alcohol", "phenol">>, <<>>, <<>>, <<>>, <<>>, <<>>),
     c2 |-> C(<<"P">>, <<>>, <<>>, <<>>, <<>>, <<>>, <<>>, <<>>, <<>>, <<>>), bond |-> "single"],
  [name |-> "nitrogen double bond", c1 |-> C(<<"C">>, <<>>, <<>>, <<>>, <<>>, <<>>, <<>>, <<>>, <<"C=C">>, <<>>),
     c2 |-> C(<<"N">>, <<>>, <<>>, <<>>, <<>>, <<>>, <<"N#N">>, <<>>, <<>>, <<>>), bond |-> "double"],
  [name |-> "S bond restriction", c1 |-> C(<<"S">>, <<>>, <<>>, <<>>, <<>>, <<>>, <<>>, <<>>, <<>>, <<>>),
     c2 |-> C(<<"F", "Cl", "Br", "I">>, <<>>, <<>>, <<>>, <<>>, <<>>, <<>>, <<>>, <<>>, <<>>), bond |-> "none"],
  [name |-> "bond restriction", c1 |-> C(Hal, <<>>, <<>>, <<>>, <<>>, <<>>, <<>>, <<>>, <<>>, <<>>),
     c2 |-> C(Hal, <<>>, <<>>, <<>>, <<>>, <<>>, <<>>, <<>>, <<>>, <<>>), bond |-> "none"],
  [name |-> "default single bond", c1 |-> AnyC, c2 |-> AnyC, bond |-> "single"] >>

E(n, c, s, sym, h) == [name |-> n, c |-> c, smiles |-> s, sym |-> sym, heavy |-> h]
ERules == <<
  E("C-O Ether break", C(<<"C">>, <<>>, <<"O">>, <<>>, <<"ether">>, <<>>, <<>>, <<>>, <<>>, <<>>), "I", "I", [I |-> 1]),
  E("C-S Thioether break", C(<<"C">>, <<>>, <<"S">>, <<>>, <<"thioether">>, <<>>, <<>>, <<>>, <<>>, <<>>), "I", "I", [I |-> 1]),
  E("C-O Ester break", C(<<"C">>, <<>>, <<"O">>, <<>>, <<"ester">>, <<>>, <<>>, <<>>, <<>>, <<>>), "O", "O", [O |-> 1]),
  E("C-S Thioester break", C(<<"C">>, <<>>, <<"S">>, <<>>, <<"thioester">>, <<>>, <<>>, <<>>, <<>>, <<>>), "O", "O", [O |-> 1]),
  E("C-N Amide break", C(<<"C">>, <<>>, <<"N">>, <<>>, <<"amid">>, <<>>, <<>>, <<>>, <<>>, <<>>), "O", "O", [O |-> 1]),
  E("form M-OH", C(<<"Mg", "Zn", "Si", "B">>, <<>>, <<>>, <<>>, <<>>, <<>>, <<>>, <<>>, <<>>, <<>>), "O", "O", [O |-> 1]),
  E("append O when next to O or N", C(<<>>, <<"O", "N">>, <<"O", "N">>, <<>>, <<>>, <<>>, <<>>, <<>>, <<>>, <<>>), "O", "O", [O |-> 1]),
  E("append O to C-C bond", C(<<"C">>, <<>>, <<"C">>, <<>>, <<>>, <<>>, <<>>, <<>>, <<>>, <<>>), "O", "O", [O |-> 1]) >>

CONSTANTS Syms, FgNames
FgSets == {<<>>} \cup {<<g>> : g \in FgNames}
PatSets == {<<>>, <<"P=O">>, <<"N#N">>}
SrcSets == {<<>>, <<"C=C">>}
Desc == [sym : Syms, nsym : Syms, fgs : FgSets, pats : PatSets, srcpats : SrcSets]

VARIABLES b1, b2
vars == <<b1, b2>>
\* patterns that can only match at particular atoms are only combined with those atoms
Sensible(b) == /\ ("P=O" \in {b.pats[j] : j \in 1..Len(b.pats)} => b.sym = "P")
               /\ ("N#N" \in {b.pats[j] : j \in 1..Len(b.pats)} => b.sym = "N")
               /\ (b.srcpats # <<>> => b.nsym = "C")
Init == b1 \in Desc /\ b2 \in Desc /\ Sensible(b1) /\ Sensible(b2)
Next == UNCHANGED vars
Spec == Init /\ [][Next]_vars

\* a fragment with the two attachment points b1, b2 completed on its own: nothing stays open and the reported
\* rules do not depend on the order in which the boundaries are listed
CONSTANT LoopMode
TwoBoundariesClosed == ManyOpen(ERules, <<b1, b2>>, 1, LoopMode) = 0 /\ ManyOpen(ERules, <<b2, b1>>, 1, LoopMode) = 0
TwoBoundariesOrderFree == BagOfSeq(ManyRules(MRules, ERules, <<b1, b2>>, 1, LoopMode))
                            = BagOfSeq(ManyRules(MRules, ERules, <<b2, b1>>, 1, LoopMode))
AlwaysAMergeRule == FirstMerge(MRules, b1, b2) # 0
CompletionWellFormed == OneBond(MRules, ERules, b1) \in {"no-expansion", "single", "double", "none"}
ExpansionsCarbonFree == \A j \in 1..Len(ERules) : V(ERules[j].heavy, "C") = 0
\* cutting a single bond a-b gives boundaries (a next to b) and (b next to a): the pair is merged
\* back with one single bond unless one of the listed rules fires
RoundTripExceptions ==
    (b1.nsym = b2.sym /\ b2.nsym = b1.sym) =>
        (TwoBond(MRules, b1, b2) = "single"
         \/ TwoRules(MRules, b1, b2)[1] \in {"S bond restriction", "bond restriction", "phosphor double bond change",
                                             "phosphor double bond", "nitrogen double bond"})
\* a restriction only ever fires between two hetero atoms
RestrictionOnlyHetero ==
    TwoBond(MRules, b1, b2) = "none" => (b1.sym # "C" /\ b2.sym # "C")
=============================================================================
