------------------------------ MODULE Pipeline ------------------------------
(***************************************************************************)
(* The staged pipeline of Balancer.__run_pipeline (synrbl/balancing.py)    *)
(* for ONE row, written stage by stage like the code.                      *)
(*                                                                         *)
(* Chemistry is abstracted to what the gates read:                         *)
(*   dC   sign of (reactant carbons - product carbons)                     *)
(*   dX   sign of the remaining imbalance (all other elements and charge)  *)
(*   added  number of completions appended so far (0 = still the input)    *)
(* The stages that do chemistry (rule-based imputation, MCS imputation,    *)
(* reagent templates) are UNTRUSTED: they may produce any abstract         *)
(* reaction. The model shows that the validators, the two reverts and the  *)
(* re-check of curated rows are enough for the properties C01, C03, C04,   *)
(* C13 (single run half) and C18 whatever those stages do.                 *)
(*                                                                         *)
(* Facts about the code that the argument rests on and that are explicit   *)
(* here (they are stage-level conformance obligations, see DESIGN.md):     *)
(*   - the rule-based stage is a deterministic function of the current     *)
(*     reaction and only touches rows whose stored carbon label is         *)
(*     "balanced" (rule_based.py:104-130);                                 *)
(*   - the rule-based validator does not refresh the carbon label          *)
(*     (check_carbon_balance=False);                                       *)
(*   - MCS imputation refuses a reactant-side carbon deficit and raises    *)
(*     unless its result is carbon balanced (mcs_based_method.py:67-97);   *)
(*   - water insertion for a two-sided imbalance never balances a reaction *)
(*     by itself (checked on the arithmetic in MC_Composition).            *)
(***************************************************************************)
EXTENDS Integers, Sequences, FiniteSets, TLC

CONSTANTS
    RecheckAfterTemplate,   \* TRUE: curated solved rows are re-examined (the repaired code)
    MaxAdded,               \* bound on the number of completions
    Thresholds,             \* thresholds explored, in model units 0..2
    ConfStrict,             \* FALSE: solved iff conf >= t (the code); TRUE: mutant conf > t
    IncomingSolved,         \* values the 'solved' column may carry when the row arrives (a result fed back in)
    ResetIncoming           \* TRUE: preprocessing sets solved to FALSE whatever arrives (preprocess.py:20)

Sign == {-1, 0, 1}
XSign == {-1, 0, 1, 2}      \* 2: the remaining imbalance has entries of both signs
Rxn  == [dC : Sign, dX : XSign]
Absent == "ABSENT"

Balanced(c) == c.dC = 0 /\ c.dX = 0
CLabel(c) == IF c.dC = 0 THEN "balanced" ELSE IF c.dC > 0 THEN "products" ELSE "reactants"
Unb(c) == IF Balanced(c) THEN "Balance"
          ELSE IF c.dX = 2 THEN "Both"
          ELSE IF c.dC >= 0 /\ c.dX >= 0 THEN "Products"
          ELSE IF c.dC <= 0 /\ c.dX <= 0 THEN "Reactants"
          ELSE "Both"

VARIABLES
    pc,        \* next stage
    inp,       \* the input reaction (after atom-map removal)
    thr,       \* confidence threshold of the run
    confO,     \* the score the model would give (oracle, independent of thr)
    cur,       \* current reaction
    added,     \* completions appended to cur (0 <=> cur is the input)
    solved, by, issue, mcsKey, clabel, ulabel, conf,
    validated, \* reaction and `added` of a solved row before post-processing
    memo,      \* first rule-based call: <<cur, added, clabel>> -> result
    stats      \* this row's contribution to the run statistics

vars == <<pc, inp, thr, confO, cur, added, solved, by, issue, mcsKey, clabel, ulabel, conf,
          validated, memo, stats>>

Stat0 == [reaction_cnt |-> 0, balanced_cnt |-> 0, rb_applied |-> 0, rb_solved |-> 0,
          mcs_applied |-> 0, mcs_solved |-> 0, confident_cnt |-> 0]

Init ==
    /\ pc = "preprocess"
    /\ inp \in Rxn
    /\ thr \in Thresholds
    /\ confO \in 0..2
    /\ cur = inp /\ added = 0
    /\ solved \in IncomingSolved /\ by = Absent /\ issue = Absent /\ mcsKey = "absent"
    /\ clabel = "unset" /\ ulabel = "unset" /\ conf = -1
    /\ validated = <<>> /\ memo = <<>>
    /\ stats = Stat0

(***************************************************************************)
(* Validator.check (postprocess.py:28-76)                                  *)
(***************************************************************************)
Validate(method, carbonCheck, override, msg, next) ==
    LET cl == IF carbonCheck THEN CLabel(cur) ELSE clabel
        ok == Unb(cur) = "Balance" /\ cl = "balanced" /\ ~solved
        s1 == solved \/ ok
    IN /\ clabel' = cl
       /\ ulabel' = Unb(cur)
       /\ solved' = s1
       /\ by' = IF ok THEN method ELSE by
       /\ IF override /\ ~s1
          THEN /\ cur' = inp /\ added' = 0
               /\ issue' = IF msg # "" /\ issue = "" THEN msg ELSE issue
          ELSE UNCHANGED <<cur, added, issue>>
       /\ pc' = next
       /\ UNCHANGED <<inp, thr, confO, mcsKey, conf, validated, memo, stats>>

Preprocess ==
    /\ pc = "preprocess"
    /\ stats' = [stats EXCEPT !.reaction_cnt = 1]
    /\ pc' = "input_validate"
    /\ solved' = IF ResetIncoming THEN FALSE ELSE solved
    /\ UNCHANGED <<inp, thr, confO, cur, added, by, issue, mcsKey, clabel, ulabel, conf,
                   validated, memo>>

InputValidate == pc = "input_validate" /\ Validate("input-balanced", TRUE, FALSE, "", "rule_based_1")

(***************************************************************************)
(* RuleBasedMethod.run (rule_based.py). Outcome of one call on (cur,       *)
(* added, clabel): a record [cur, added, applied, solvedCnt, bal].         *)
(***************************************************************************)
RBOutcomes ==
    LET u == Unb(cur) IN
    IF u = "Balance" THEN
        { [cur |-> cur, added |-> added, applied |-> 0, solvedCnt |-> 0,
           bal |-> IF clabel = "balanced" THEN 1 ELSE 0] }
    ELSE
        \* Two-sided imbalance (as the code classifies it after its both-side conversion; the
        \* model does not second-guess that classification): water may be appended to the
        \* products IN PLACE, for rows of ANY carbon label (rule_based.py:69-93 runs before the
        \* carbon filter), never balancing by itself. Only rows whose stored carbon label is
        \* "balanced" are handed to the imputer, which may find a completion (any result).
        LET waterOpts == IF added < MaxAdded THEN {TRUE, FALSE} ELSE {FALSE}
        IN UNION { LET a1 == IF w THEN added + 1 ELSE added
                       curW == IF w THEN {c \in Rxn : ~Balanced(c)} ELSE {cur}
                   IN UNION { {[cur |-> c1, added |-> a1, applied |-> ap, solvedCnt |-> 0, bal |-> 0]
                                  : ap \in (IF clabel = "balanced" THEN {0, 1} ELSE {0})}
                              \cup
                              (IF clabel = "balanced" /\ a1 < MaxAdded
                               THEN {[cur |-> c2, added |-> a1 + 1, applied |-> 1, solvedCnt |-> 1, bal |-> 0]
                                        : c2 \in Rxn}
                               ELSE {})
                              : c1 \in curW }
                 : w \in waterOpts }

RuleBased(stage, countStats, next) ==
    /\ pc = stage
    /\ LET key == <<cur, added, clabel>> IN
       \E o \in RBOutcomes :
          /\ (memo # <<>> /\ memo[1] = key) => o = memo[2]     \* determinism
          /\ memo' = IF memo = <<>> THEN <<key, o>> ELSE memo
          /\ cur' = o.cur /\ added' = o.added
          /\ stats' = IF countStats
                      THEN [stats EXCEPT !.balanced_cnt = o.bal, !.rb_applied = o.applied,
                                         !.rb_solved = o.solvedCnt]
                      ELSE stats
    /\ pc' = next
    /\ UNCHANGED <<inp, thr, confO, solved, by, issue, mcsKey, clabel, ulabel, conf, validated>>

RuleBased1 == RuleBased("rule_based_1", TRUE, "rb_validate")
RBValidate == pc = "rb_validate" /\ Validate("rule-based", FALSE, TRUE, "", "mcs_search")

(***************************************************************************)
(* MCSSearch.find (mcs_search.py:57-102): unsolved rows get the mcs key    *)
(* and an issue; the selected search condition overwrites both.            *)
(***************************************************************************)
MCSSearch ==
    /\ pc = "mcs_search"
    /\ IF solved THEN UNCHANGED <<mcsKey, issue>>
       ELSE \/ mcsKey' = "none" /\ issue' = "No MCS identified."
            \/ mcsKey' = "present" /\ issue' \in {"", "MCS identification failed."}
    /\ pc' = "mcs_impute"
    /\ UNCHANGED <<inp, thr, confO, cur, added, solved, by, clabel, ulabel, conf, validated, memo, stats>>

(***************************************************************************)
(* MCSBasedMethod.run (mcs_based_method.py:118-147)                        *)
(***************************************************************************)
MCSImpute ==
    /\ pc = "mcs_impute"
    /\ IF mcsKey = "absent" THEN UNCHANGED <<cur, added, issue, stats>>
       ELSE IF mcsKey = "none" THEN
            /\ stats' = [stats EXCEPT !.mcs_applied = 1]
            /\ UNCHANGED <<cur, added, issue>>
       ELSE \/ \* exception (previous issue, merge failure, reactant-side carbon deficit, ...)
               /\ issue' = "Imputation failed."
               /\ stats' = [stats EXCEPT !.mcs_applied = 1]
               /\ UNCHANGED <<cur, added>>
            \/ \* success: only without a previous issue, never with a reactant-side
               \* carbon deficit, and only when the result is carbon balanced
               /\ issue = "" /\ clabel \in {"products", "balanced"} /\ added < MaxAdded
               /\ \E x \in XSign : cur' = [dC |-> 0, dX |-> x]
               /\ added' = added + 1
               /\ stats' = [stats EXCEPT !.mcs_applied = 1, !.mcs_solved = 1]
               /\ UNCHANGED issue
    /\ pc' = "mcs_validate"
    /\ UNCHANGED <<inp, thr, confO, solved, by, mcsKey, clabel, ulabel, conf, validated, memo>>

MCSValidate == pc = "mcs_validate" /\ Validate("mcs-based", TRUE, FALSE, "", "post_process")

(***************************************************************************)
(* Balancer.__post_process: solved rows that are not input-balanced may be *)
(* overwritten by a reagent template (any reaction).                       *)
(***************************************************************************)
PostProcess ==
    /\ pc = "post_process"
    /\ validated' = IF solved THEN <<cur, added>> ELSE <<>>
    /\ IF by \notin {Absent, "input-balanced"} /\ added < MaxAdded
       THEN \/ UNCHANGED <<cur, added>>
            \/ \E c \in Rxn : cur' = c /\ added' = added + 1
       ELSE UNCHANGED <<cur, added>>
    /\ pc' = "rule_based_2"
    /\ UNCHANGED <<inp, thr, confO, solved, by, issue, mcsKey, clabel, ulabel, conf, memo, stats>>

RuleBased2 == RuleBased("rule_based_2", FALSE, "recheck")

\* the repair of C01: a solved row whose reaction changed is kept only if balanced
Recheck ==
    /\ pc = "recheck"
    /\ IF RecheckAfterTemplate /\ validated # <<>> /\ <<cur, added>> # validated /\ ~Balanced(cur)
       THEN cur' = validated[1] /\ added' = validated[2]
       ELSE UNCHANGED <<cur, added>>
    /\ pc' = "final_validate"
    /\ UNCHANGED <<inp, thr, confO, solved, by, issue, mcsKey, clabel, ulabel, conf, validated, memo, stats>>

FinalValidate ==
    pc = "final_validate" /\ Validate("mcs-based", TRUE, TRUE, "Final reaction is unbalanced.", "confidence")

(***************************************************************************)
(* ConfidencePredictor.predict (confidence_prediction.py:40-90)            *)
(***************************************************************************)
Confidence ==
    /\ pc = "confidence"
    /\ IF by = "mcs-based"
       THEN /\ conf' = confO
            /\ IF (IF ConfStrict THEN confO > thr ELSE confO >= thr)
               THEN /\ stats' = [stats EXCEPT !.confident_cnt = 1]
                    /\ UNCHANGED <<solved, issue>>
               ELSE /\ solved' = FALSE
                    /\ issue' = "Confidence is below the threshold."
                    /\ UNCHANGED stats
       ELSE UNCHANGED <<conf, solved, issue, stats>>
    /\ pc' = "done"
    /\ UNCHANGED <<inp, thr, confO, cur, added, by, mcsKey, clabel, ulabel, validated, memo>>

Next == \/ Preprocess \/ InputValidate \/ RuleBased1 \/ RBValidate \/ MCSSearch \/ MCSImpute
        \/ MCSValidate \/ PostProcess \/ RuleBased2 \/ Recheck \/ FinalValidate \/ Confidence

Spec == Init /\ [][Next]_vars

(***************************************************************************)
(* Properties (the API clauses on the abstract row, evaluated when done)   *)
(***************************************************************************)
Done == pc = "done"
Methods == {"input-balanced", "rule-based", "mcs-based"}

C01_SolvedBalanced == Done /\ solved => Balanced(cur)
\* stronger, at every stage boundary after a validator: a solved row that was
\* not touched since is balanced
C03_DeclinedUntouched == Done /\ thr = 0 /\ ~solved => cur = inp /\ added = 0
C03_DeclinedHasReason == Done /\ ~solved => issue \notin {Absent, ""}
C03_SolvedNamesMethod == Done /\ solved => by \in Methods /\ issue \in {Absent, ""}
C03_CarbonDeficitDeclined == Done /\ inp.dC < 0 => ~solved
C04_BalancedPassThrough ==
    Done /\ Balanced(inp) => solved /\ by = "input-balanced" /\ cur = inp /\ added = 0
C04_OnlyBalancedLabelled == Done /\ by = "input-balanced" => Balanced(inp) /\ added = 0 /\ solved
C13_Boundary == Done /\ by = "mcs-based" => (solved <=> conf >= thr) /\ conf = confO
C13_OthersUntouched == Done /\ by # "mcs-based" => conf = -1
C13_DemotedNamesThreshold ==
    Done /\ by = "mcs-based" /\ ~solved => issue = "Confidence is below the threshold."
C18_Stats ==
    Done =>
      /\ stats.reaction_cnt = 1
      /\ stats.balanced_cnt = (IF by = "input-balanced" THEN 1 ELSE 0)
      /\ stats.confident_cnt = (IF solved /\ by = "mcs-based" THEN 1 ELSE 0)
      /\ stats.mcs_applied = (IF by \notin {"input-balanced", "rule-based"} THEN 1 ELSE 0)
      /\ stats.rb_solved <= stats.rb_applied
      /\ stats.mcs_solved <= stats.mcs_applied
      /\ stats.rb_solved >= (IF by = "rule-based" THEN 1 ELSE 0)
      /\ stats.mcs_solved >= (IF by = "mcs-based" THEN 1 ELSE 0)

\* the flag is monotone except for the confidence filter
SolvedMonotone == [][solved /\ ~solved' => pc \in {"confidence", "preprocess"}]_vars
\* a solved row's reaction is only changed by post-processing / the second
\* rule-based run / the re-check
SolvedFrame == [][solved /\ <<cur', added'>> # <<cur, added>>
                    => pc \in {"post_process", "rule_based_2", "recheck"}]_vars
=============================================================================
