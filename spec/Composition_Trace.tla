------------------------- MODULE Composition_Trace -------------------------
(* Trace validation for C07: every event recorded from the real functions   *)
(* (decompose, compare_dicts, diff_dicts, BothSideReact.fit, the carbon      *)
(* labels) is judged by the operators of Composition. Total verdicts: the    *)
(* whole log is consumed and every failing (event, clause) is reported.      *)
EXTENDS Composition, Json, IOUtils

Log == ndJsonDeserialize(IOEnv.TRACE_FILE)

VARIABLES i, bad
tvars == <<i, bad>>

Fails(e, clause, ok) == IF ok THEN <<>> ELSE << <<e.id, clause>> >>

JudgeDecompose(e) ==
    LET spec == DecomposeSpec(e.atoms) IN
       Fails(e, "DecomposeExact", e.out = spec)
    \o Fails(e, "DecomposeNoZeroEntries", \A k \in DOMAIN e.out : e.out[k] # 0)

JudgeAdditive(e) ==
    Fails(e, "DecomposeAdditive", SameComp(e.whole, SumComps(e.parts)))

JudgeCompare(e) ==
       Fails(e, "VerdictAgrees", VerdictAgrees(e.r, e.p, e.verdict))
    \o Fails(e, "DiffAgrees", DiffAgrees(e.r, e.p, e.diff))
    \o Fails(e, "BothSideConserves", BothSideConserves(e.r, e.p, <<e.bs_diff, e.bs_u>>))
    \o Fails(e, "BothSideMatchesModel",
             e.bs_u = BothSideAlgo(e.r, e.p)[2] /\ SameComp(e.bs_diff, BothSideAlgo(e.r, e.p)[1]))

JudgeCarbon(e) ==
       Fails(e, "CarbonLabel", e.label = CarbonLabel(e.rc, e.pc))
    \o Fails(e, "IsCarbonBalanced", e.isbal = (e.rc = e.pc))

Judge(e) ==
    CASE e.ev = "decompose" -> JudgeDecompose(e)
      [] e.ev = "additive"  -> JudgeAdditive(e)
      [] e.ev = "compare"   -> JudgeCompare(e)
      [] e.ev = "carbon"    -> JudgeCarbon(e)
      [] e.ev = "batch_side" -> Fails(e, "BatchDecomposeExact", SameComp(e.out, e.truth))
      [] OTHER -> << <<e.id, "UnknownEvent">> >>

TInit == i = 1 /\ bad = <<>> /\ TLCSet(1, <<>>)
TNext == /\ i <= Len(Log)
         /\ i' = i + 1
         /\ bad' = bad \o Judge(Log[i])
         /\ TLCSet(1, bad')
TSpec == TInit /\ [][TNext]_tvars

Post == JsonSerialize(IOEnv.VERDICT_FILE,
          [consumed |-> TLCGet("stats").diameter - 1, total |-> Len(Log), bad |-> TLCGet(1)])
=============================================================================
