--------------------------- MODULE MCSSelect_Trace ---------------------------
(* C10. "table" events: a result table enumerated by TLC from MC_MCSSelect and   *)
(* what the real ExtractMCS.get_largest_condition returned for it. "search"      *)
(* events: one unsolved reaction of a real MCSSearch.find call on a mixed batch  *)
(* with oracle facts about the retained result.                                  *)
EXTENDS MCSSelect, Json, IOUtils

Log == ndJsonDeserialize(IOEnv.TRACE_FILE)
VARIABLES i, bad
tvars == <<i, bad>>
Fails(e, clause, ok) == IF ok THEN <<>> ELSE << <<e.id, clause>> >>

MaxOf(seq) == LET s == {seq[j] : j \in 1..Len(seq)} IN CHOOSE m \in s : \A x \in s : m >= x
NumMax(seq) == Cardinality({j \in 1..Len(seq) : seq[j] = MaxOf(seq)})

JudgeTable(e) ==
    LET ok == \A k \in 1..Len(e.result) : e.result[k].cond >= 1 IN
       Fails(e, "ReturnsTableEntries", ok)
    \o (IF ok THEN
             Fails(e, "LargestRetained", LargestRetained(e.conds, e.result))
          \o Fails(e, "InOrderNoRepeats", InOrderNoRepeats(e.result))
          \o Fails(e, "SameReaction", SameReaction(e.conds, e.result))
          \o Fails(e, "UniqueBestKept", UniqueBestKept(e.conds, e.result))
          \o Fails(e, "DRIFT_SelectionMatchesModel", e.result = Select(e.conds))
        ELSE <<>>)

JudgeSearch(e) ==
       Fails(e, "SearchDoesNotRaise", e.crashed = "")
    \o Fails(e, "OwnId", e.has_mcs => e.id_matches)
    \o Fails(e, "MoleculesAreCarbonRicherSide", e.has_mcs => e.bag_ok)
    \o Fails(e, "PatternPerMolecule", e.has_mcs => e.nmol = e.npat)
    \o Fails(e, "PatternsContained", e.has_mcs => \A j \in 1..Len(e.contained) : e.contained[j])
    \o Fails(e, "LargestRetained", (e.has_mcs /\ ~e.timing) => e.sel_total = MaxOf(e.totals))
    \o Fails(e, "UniqueBestKept",
             (~e.timing /\ MaxOf(e.totals) > 0 /\ NumMax(e.totals) = 1) => e.has_mcs)
    \o Fails(e, "SolvedRowsSkipped", e.solved_before => ~e.has_key)

Judge(e) == CASE e.ev = "table" -> JudgeTable(e)
              [] e.ev = "search" -> JudgeSearch(e)
              [] OTHER -> << <<e.id, "UnknownEvent">> >>
TInit == i = 1 /\ bad = <<>> /\ TLCSet(1, <<>>)
TNext == /\ i <= Len(Log)
         /\ i' = i + 1
         /\ bad' = bad \o Judge(Log[i])
         /\ TLCSet(1, bad')
TSpec == TInit /\ [][TNext]_tvars
Post == JsonSerialize(IOEnv.VERDICT_FILE,
          [consumed |-> TLCGet("stats").diameter - 1, total |-> Len(Log), bad |-> TLCGet(1)])
=============================================================================
