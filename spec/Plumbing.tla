------------------------------ MODULE Plumbing ------------------------------
(***************************************************************************)
(* How per-reaction results travel between the stages of one batch          *)
(* (C06 / C10 "results of different reactions are never mixed up"):         *)
(*   - preprocessing assigns id = position after filtering                  *)
(*     (rsmi_processing.py:153-157),                                        *)
(*   - MCSSearch.find searches the unsolved rows only, remembers            *)
(*     id -> index (mcs_search.py:57-66), gets one result list per search   *)
(*     condition (same order), lets get_largest_condition pick one entry    *)
(*     per position and SKIP positions where nothing matched                *)
(*     (extract_common_mcs.py:163-234), runs the fragment analysis          *)
(*     positionally on the shortened list (find_graph_dict.py) and writes   *)
(*     each result back through the id -> index map (mcs_search.py:88-102). *)
(* Every value carries the ghost field `origin` of the reaction it was      *)
(* computed from; Attribution says a row only ever receives values of its   *)
(* own origin, for every batch composition within the bound.                *)
(***************************************************************************)
EXTENDS Integers, Sequences, FiniteSets, TLC

CONSTANTS N,        \* rows in the batch
          NC,       \* search conditions
          UseZip,   \* FALSE: the code (id map); TRUE: mutant (positional zip)
          IdOf      \* the id a row carries after preprocessing: its position (IdPos, the code:
                    \* data_splitter overwrites the id column) or whatever arrived with the row (IdShift)

Rows == 1..N
IdPos == [j \in Rows |-> j]
IdShift == [j \in Rows |-> (j % N) + 1]
VARIABLES solvedBefore,  \* [Rows -> BOOLEAN]  solved before the MCS stage
          total,         \* [Rows -> [1..NC -> 0..1]] atoms matched per condition (0 = nothing)
          mcs,           \* [Rows -> record or "none" or "absent"]  what MCSSearch.find left in the row
          pc
vars == <<solvedBefore, total, mcs, pc>>

\* ids are the string form of the row index; here the index itself
Unsolved == SelectSeq([j \in Rows |-> j], LAMBDA j : ~solvedBefore[j])   \* mcs_reactions (as origins)
Id2Idx == [j \in {Unsolved[k] : k \in 1..Len(Unsolved)} |-> j]

\* condition c returns one entry per unsolved reaction, in order
CondResult(c) == [k \in 1..Len(Unsolved) |->
                    [id |-> Unsolved[k], origin |-> Unsolved[k], tot |-> total[Unsolved[k]][c]]]

\* get_largest_condition, reduced to what matters for routing: the first
\* condition with the strictly largest total wins; a position where every
\* total is 0 yields no entry
Winner(k) == LET best == CHOOSE c \in 1..NC : \A d \in 1..NC :
                              CondResult(c)[k].tot > CondResult(d)[k].tot
                              \/ (CondResult(c)[k].tot = CondResult(d)[k].tot /\ c <= d)
             IN CondResult(best)[k]
RECURSIVE Largest(_)
Largest(k) == IF k > Len(Unsolved) THEN <<>>
              ELSE (IF Winner(k).tot > 0 THEN <<Winner(k)>> ELSE <<>>) \o Largest(k + 1)

\* find_graph_dict: positional, one result per entry of the shortened list
Graph(l) == [k \in 1..Len(l) |-> [origin |-> l[k].origin]]

NoData(k) == [kind |-> k, search |-> 0, graph |-> 0]

Init == /\ solvedBefore \in [Rows -> BOOLEAN]
        /\ total \in [Rows -> [1..NC -> 0..1]]
        /\ mcs = [j \in Rows |-> NoData("absent")]
        /\ pc = "find"

Find ==
    /\ pc = "find"
    /\ LET l == Largest(1)
           g == Graph(l)
           target(k) == IF UseZip THEN Unsolved[k]          \* k-th searched reaction
                        ELSE Id2Idx[l[k].id]                \* through the id map
       IN mcs' = [j \in Rows |->
                    IF solvedBefore[j] THEN NoData("absent")
                    ELSE IF \E k \in 1..Len(l) : target(k) = j
                         THEN LET k == CHOOSE k \in 1..Len(l) : target(k) = j
                              IN [kind |-> "data", search |-> l[k].origin, graph |-> g[k].origin]
                         ELSE NoData("none")]
    /\ pc' = "done"
    /\ UNCHANGED <<solvedBefore, total>>

(***************************************************************************)
(* The other write-backs of the pipeline, each as "filter some rows,        *)
(* compute one value per selected row (the value carries the ghost origin   *)
(* of the row it was computed from), write the values back":                *)
(*   rule-based stage   : results carry the id, written to reactions[int(id)]*)
(*                        (rule_based.py:169-171)                           *)
(*   post-processing    : results carry the id, written through             *)
(*                        key_index_map (balancing.py:149-164)              *)
(*   confidence         : the filtered list holds references to the rows,   *)
(*                        zip(filtered, scores) (confidence_prediction.py)  *)
(* Sel is the set of rows a stage selects. The three routings are compared  *)
(* with the positional mutant (k-th result into the k-th row of the batch). *)
(***************************************************************************)
Selected(Sel) == SelectSeq([j \in Rows |-> j], LAMBDA j : j \in Sel)
\* values computed for the selected rows, in order, each tagged with id and origin
\* the id is what the row carries; the rule-based stage and post-processing use it as the row's position
\* (reactions[int(id)], key_index_map)
Results(Sel) == [k \in 1..Len(Selected(Sel)) |-> [id |-> IdOf[Selected(Sel)[k]], origin |-> Selected(Sel)[k]]]
ById(Sel) == [j \in Rows |-> IF \E k \in 1..Len(Results(Sel)) : Results(Sel)[k].id = j
                              THEN (CHOOSE k \in 1..Len(Results(Sel)) : Results(Sel)[k].id = j) ELSE 0]
WriteById(Sel) == [j \in Rows |-> IF ById(Sel)[j] = 0 THEN 0 ELSE Results(Sel)[ById(Sel)[j]].origin]
WriteByReference(Sel) == [j \in Rows |->
      IF \E k \in 1..Len(Selected(Sel)) : Selected(Sel)[k] = j
      THEN Results(Sel)[CHOOSE k \in 1..Len(Selected(Sel)) : Selected(Sel)[k] = j].origin ELSE 0]
WriteByPosition(Sel) == [j \in Rows |-> IF j <= Len(Results(Sel)) THEN Results(Sel)[j].origin ELSE 0]

RoutedRight(w, Sel) == \A j \in Rows : w[j] = (IF j \in Sel THEN j ELSE 0)
OtherWriteBacks ==
    /\ pc \in {"find", "done"}
    /\ \A Sel \in SUBSET Rows :
        /\ RoutedRight(IF UseZip THEN WriteByPosition(Sel) ELSE WriteById(Sel), Sel)      \* rule-based, post-processing
        /\ RoutedRight(WriteByReference(Sel), Sel)                                        \* confidence

Next == Find
Spec == Init /\ [][Next]_vars

Attribution ==
    pc = "done" =>
      \A j \in Rows :
        /\ solvedBefore[j] => mcs[j].kind = "absent"
        /\ (~solvedBefore[j] /\ \A c \in 1..NC : total[j][c] = 0) => mcs[j].kind = "none"
        /\ (~solvedBefore[j] /\ \E c \in 1..NC : total[j][c] > 0) =>
              /\ mcs[j].kind = "data"
              /\ mcs[j].search = j /\ mcs[j].graph = j
=============================================================================
