---------------------------- MODULE MC_Uncertainty ----------------------------
(* Bounded instance of Uncertainty: every list of up to MaxEntries analysis      *)
(* results with up to MaxSlots slots each (part 1) and every family of up to     *)
(* MaxConds search conditions over Ids and Tokens (part 2).  No transitions: the *)
(* initial states are the cases; TLC checks the design facts on each and the     *)
(* cases are dumped and replayed through the real classes.                       *)
EXTENDS Uncertainty

CONSTANTS MaxEntries, MaxSlots, MaxPieces, Th, Ids, Tokens, MaxConds, Num, Mutation

VARIABLES part, l, conds, final
vars == <<part, l, conds, final>>

SeqUpTo(S, n) == UNION {[1..k -> S] : k \in 0..n}
Entries == {[b |-> x, s |-> y] : x \in SeqUpTo(BOOLEAN, MaxSlots), y \in SeqUpTo(0..MaxPieces, MaxSlots)}
NoFun == [x \in {} |-> ""]

Init == \/ /\ part = 1
           /\ l \in SeqUpTo(Entries, MaxEntries)
           /\ conds = <<>> /\ final = NoFun
        \/ /\ part = 2
           /\ l = <<>>
           /\ conds \in SeqUpTo([Ids -> Tokens], MaxConds)
           /\ final \in [Ids -> Tokens]
Next == UNCHANGED vars
Spec == Init /\ [][Next]_vars

\* sensitivity: membership in the index list tested with a zero-based position
U == WithoutBoundary(l) \cup GraphUncertain(l, Th)
FitUsed == IF Mutation = "zero_based" THEN MarkWith(l, Th, LAMBDA k : (k - 1) \in U)
           ELSE Fit(l, Th)
SourceUsed(id) == IF Mutation = "last_quorum"
                  THEN LET q == {c \in DOMAIN conds : Count(conds, id, conds[c][id]) >= Num /\ conds[c][id] # ""}
                       IN  IF q = {} THEN 0 ELSE CHOOSE c \in q : \A d \in q : c >= d
                  ELSE Source(conds, id, Num)

\* ---- part 1 -----------------------------------------------------------------
InvPositionFree == part = 1 => \A k \in DOMAIN l : FitUsed[k] = Certain(l[k], Th)
InvFailedJobUncertain == part = 1 => \A k \in DOMAIN l : FailedJob(l[k]) => ~FitUsed[k]
InvNeighboursIndependent == part = 1 => \A k \in DOMAIN l : FitUsed[k] = Fit(<<l[k]>>, Th)[1]
\* ---- part 2 -----------------------------------------------------------------
InvQuorum == part = 2 => \A id \in Ids :
    LET c == SourceUsed(id) IN c # 0 => /\ Count(conds, id, conds[c][id]) >= Num
                                        /\ conds[c][id] # ""
InvFirstQuorum == part = 2 => \A id \in Ids :
    LET c == SourceUsed(id) IN c # 0 => \A d \in DOMAIN conds : d < c => Count(conds, id, conds[d][id]) < Num
InvKeepsFinalWithoutQuorum == part = 2 => \A id \in Ids :
    (\A c \in DOMAIN conds : Count(conds, id, conds[c][id]) < Num) => SourceUsed(id) = 0
InvIdsIndependent == part = 2 => \A id \in Ids :
    SourceUsed(id) = Source([c \in DOMAIN conds |-> [x \in {id} |-> conds[c][id]]], id, Num)
=============================================================================
