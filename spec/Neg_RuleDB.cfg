CONSTANTS
  Mutation = "nosmiles"
  MaxOps = 3
SPECIFICATION Spec
INVARIANT InvConsistent
PROPERTY NeverMoreClashes
PROPERTY OthersUndisturbed
PROPERTY RemoveRemovesNamed
PROPERTY RejectedUnchanged
CHECK_DEADLOCK FALSE
