CONSTANTS
  AllowMarkerPrefixedInputs = TRUE
  MaxInput = 2
  MaxAdded = 3
SPECIFICATION Spec
INVARIANT LiteralIsIntended
INVARIANT InputKept
INVARIANT OrderInvariant
CHECK_DEADLOCK FALSE
