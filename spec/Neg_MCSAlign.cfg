CONSTANTS
  N = 3
  LengthCheck = FALSE
SPECIFICATION Spec
INVARIANT WholeSide
INVARIANT Aligned
INVARIANT OnePatternPerMolecule
CHECK_DEADLOCK FALSE
