-------------------------------- MODULE Merge --------------------------------
(***************************************************************************)
(* The fragment merge engine (synrbl/SynMCSImputer/merge.py, rules.py), C09 *)
(* at the level of boundary DESCRIPTORS and rule TABLES.                    *)
(*                                                                         *)
(* A boundary descriptor is what the rule conditions can see:               *)
(*   [sym, nsym, fgs, pats, srcpats]                                        *)
(* boundary atom symbol, symbol of the neighbour in the source molecule,    *)
(* functional groups at that neighbour, patterns matching at the boundary   *)
(* atom, patterns matching at the neighbour in the source.                  *)
(* A condition is a record of positive / negative value lists per property  *)
(* (rules.py: Property with '!'-negation); a merge rule is                  *)
(* [name, c1, c2, bond]; an expand rule [name, c, smiles, sym, heavy].      *)
(* "First applicable rule wins" everywhere.                                 *)
(***************************************************************************)
EXTENDS Integers, Sequences, FiniteSets, TLC

InSeq(x, s) == \E j \in 1..Len(s) : s[j] = x
\* Property.__call__: some positive value holds (if any given), no negative value holds
Prop(pos, neg, Test(_)) ==
    /\ (Len(pos) = 0 \/ \E j \in 1..Len(pos) : Test(pos[j]))
    /\ \A j \in 1..Len(neg) : ~Test(neg[j])

Cond(c, b) ==
    /\ Prop(c.atom_pos, c.atom_neg, LAMBDA v : b.sym = v)
    /\ Prop(c.nb_pos, c.nb_neg, LAMBDA v : b.nsym = v)
    /\ Prop(c.fg_pos, c.fg_neg, LAMBDA v : InSeq(v, b.fgs))
    /\ Prop(c.pat_pos, c.pat_neg, LAMBDA v : InSeq(v, b.pats))
    /\ Prop(c.src_pos, c.src_neg, LAMBDA v : InSeq(v, b.srcpats))

MergeApplies(r, b1, b2) == (Cond(r.c1, b1) /\ Cond(r.c2, b2)) \/ (Cond(r.c1, b2) /\ Cond(r.c2, b1))

\* index of the first applicable rule, 0 if none
FirstMerge(rules, b1, b2) ==
    LET S == {j \in 1..Len(rules) : MergeApplies(rules[j], b1, b2)} IN
    IF S = {} THEN 0 ELSE CHOOSE j \in S : \A k \in S : j <= k
FirstExpand(rules, b) ==
    LET S == {j \in 1..Len(rules) : Cond(rules[j].c, b)} IN
    IF S = {} THEN 0 ELSE CHOOSE j \in S : \A k \in S : j <= k

\* the boundary of an expansion compound: created without source molecule
ExpBoundary(er) == [sym |-> er.sym, nsym |-> "none", fgs |-> <<>>, pats |-> <<>>, srcpats |-> <<>>]

(* _merge_two_compounds with one boundary each: the names reported *)
TwoRules(mrules, b1, b2) ==
    LET j == FirstMerge(mrules, b1, b2) IN IF j = 0 THEN <<>> ELSE <<mrules[j].name>>
TwoBond(mrules, b1, b2) ==
    LET j == FirstMerge(mrules, b1, b2) IN IF j = 0 THEN "no-rule" ELSE mrules[j].bond

(* _merge_one_compound with one boundary: expand, then merge with the expansion's boundary; *)
(* without an expand rule the boundary is simply dropped                                     *)
OneRules(mrules, erules, b) ==
    LET e == FirstExpand(erules, b) IN
    IF e = 0 THEN <<>>
    ELSE LET j == FirstMerge(mrules, b, ExpBoundary(erules[e])) IN
         IF j = 0 THEN <<"NO-MERGE-RULE">> ELSE <<erules[e].name, mrules[j].name>>
OneBond(mrules, erules, b) ==
    LET e == FirstExpand(erules, b) IN
    IF e = 0 THEN "no-expansion"
    ELSE LET j == FirstMerge(mrules, b, ExpBoundary(erules[e])) IN
         IF j = 0 THEN "no-rule" ELSE mrules[j].bond
OneCompound(erules, b) ==
    LET e == FirstExpand(erules, b) IN IF e = 0 THEN "" ELSE erules[e].smiles

(* _merge_one_compound with SEVERAL boundaries (merge.py:36-54): the loop takes the first open boundary, expands *)
(* and merges it or - without an expand rule - drops it, until none is left. LoopMode "all" is the code;          *)
(* "stop_at_no_rule" is the wrong reading in which the first boundary without an expand rule ends the loop.       *)
RECURSIVE ManyRules(_, _, _, _, _)
ManyRules(mrules, erules, bs, k, mode) ==
    IF k > Len(bs) THEN <<>>
    ELSE IF mode = "stop_at_no_rule" /\ FirstExpand(erules, bs[k]) = 0 THEN <<>>
    ELSE OneRules(mrules, erules, bs[k]) \o ManyRules(mrules, erules, bs, k + 1, mode)
\* boundaries still open when the loop ends
RECURSIVE ManyOpen(_, _, _, _)
ManyOpen(erules, bs, k, mode) ==
    IF k > Len(bs) THEN 0
    ELSE IF mode = "stop_at_no_rule" /\ FirstExpand(erules, bs[k]) = 0 THEN Len(bs) - k + 1
    ELSE ManyOpen(erules, bs, k + 1, mode)
BagOfSeq(seq) == [x \in {seq[j] : j \in 1..Len(seq)} |-> Cardinality({j \in 1..Len(seq) : seq[j] = x})]

(* bookkeeping the property asks for *)
V(d, k) == IF k \in DOMAIN d THEN d[k] ELSE 0
AddCounts(a, b) == [k \in DOMAIN a \cup DOMAIN b |-> V(a, k) + V(b, k)]
RECURSIVE SumCounts(_)
SumCounts(s) == IF s = <<>> THEN <<>> ELSE AddCounts(Head(s), SumCounts(Tail(s)))
SameCounts(a, b) == \A k \in DOMAIN a \cup DOMAIN b : V(a, k) = V(b, k)

\* heavy atoms contributed by the expansion compounds named in a list of reported rule names
ExpansionHeavy(erules, names) ==
    SumCounts([j \in 1..Len(names) |->
                 IF \E k \in 1..Len(erules) : erules[k].name = names[j]
                 THEN erules[CHOOSE k \in 1..Len(erules) : erules[k].name = names[j]].heavy
                 ELSE <<>>])
IsRestriction(mrules, names) ==
    \E j \in 1..Len(names) : \E k \in 1..Len(mrules) : mrules[k].name = names[j] /\ mrules[k].bond = "none"
=============================================================================
