----------------------------- MODULE MissingGraph -----------------------------
(***************************************************************************)
(* FindMissingGraphs.find_missing_parts_pairs                               *)
(* (SynMCSImputer/MissingGraph/find_missing_graphs.py:44-203) for one        *)
(* (molecule, common substructure) pair, at the level of labelled graphs.   *)
(*                                                                          *)
(* A graph is a record [lab, edges]: lab a sequence of element symbols      *)
(* (atom k has label lab[k]), edges a set of two-element sets of atoms.     *)
(* Hydrogens and bond orders are not modelled (the bounded instances use    *)
(* saturated C / N / O skeletons).                                          *)
(*                                                                          *)
(* The function embeds the pattern P into the molecule G (a substructure    *)
(* match: labels agree, every pattern bond is a molecule bond), deletes the *)
(* matched atoms and returns                                                *)
(*   - the rest of the molecule (the "missing part", possibly several       *)
(*     fragments, renumbered), or nothing when no atom is left,             *)
(*   - per cut bond the rest-side atom ("boundary", in the numbering of the *)
(*     returned rest) and the matched-side atom ("nearest neighbour", in    *)
(*     the numbering of the molecule), position k of one list belonging to  *)
(*     position k of the other.                                             *)
(* Which embedding is used: SubstructureAnalyzer.identify_optimal_          *)
(* substructure takes one whose removal leaves the fewest fragments; a      *)
(* pattern that is a single oxygen atom is special-cased to a hydroxyl      *)
(* oxygen when the molecule has one (find_missing_graphs.py:88-97).         *)
(***************************************************************************)
EXTENDS Integers, Sequences, FiniteSets, TLC

Atoms(g) == 1..Len(g.lab)
Adj(g, a, b) == {a, b} \in g.edges /\ a # b
Deg(g, a) == Cardinality({b \in Atoms(g) : Adj(g, a, b)})

\* ---- substructure embeddings of a pattern p into a molecule g -------------
IsEmbedding(p, g, m) ==
    /\ \A a, b \in Atoms(p) : a # b => m[a] # m[b]
    /\ \A a \in Atoms(p) : p.lab[a] = g.lab[m[a]]
    /\ \A a, b \in Atoms(p) : Adj(p, a, b) => Adj(g, m[a], m[b])
Embeddings(p, g) == {m \in [Atoms(p) -> Atoms(g)] : IsEmbedding(p, g, m)}
Image(p, m) == {m[a] : a \in Atoms(p)}

\* ---- what is left and where it was attached ------------------------------
Rest(g, M) == Atoms(g) \ M
RestEdges(g, M) == {e \in g.edges : e \subseteq Rest(g, M)}
\* cut bonds as <<rest atom, matched atom>>
Cut(g, M) == {<<a, b>> \in Rest(g, M) \X M : Adj(g, a, b)}

\* connected components of the rest (reachability by repeated squaring is
\* overkill for <= 6 atoms: iterate neighbourhood closure |rest| times)
RECURSIVE Grow(_, _, _, _)
Grow(g, S, comp, n) ==
    IF n = 0 THEN comp
    ELSE Grow(g, S, comp \cup {b \in S : \E a \in comp : Adj(g, a, b)}, n - 1)
ComponentOf(g, S, a) == Grow(g, S, {a}, Cardinality(S))
Components(g, S) == {ComponentOf(g, S, a) : a \in S}
NumFragments(g, M) == Cardinality(Components(g, Rest(g, M)))

\* ---- the embeddings the implementation may use ---------------------------
IsSingleOxygen(p) == Len(p.lab) = 1 /\ p.lab[1] = "O"
\* in a saturated skeleton an oxygen with at most one neighbour carries hydrogen
Hydroxyl(g) == {a \in Atoms(g) : g.lab[a] = "O" /\ Deg(g, a) <= 1}
Preferred(p, g) ==
    LET all == Embeddings(p, g) IN
    IF IsSingleOxygen(p) /\ Hydroxyl(g) # {}
    THEN {m \in all : m[1] \in Hydroxyl(g)}
    ELSE {m \in all : \A m2 \in all : NumFragments(g, Image(p, m)) <= NumFragments(g, Image(p, m2))}

\* ---- acceptance of an observed output -------------------------------------
\* out = [none, lab, edges, pairs]: pairs a set of <<boundary index in out, nearest index in g>>
IsIso(g, S, out, f) ==
    /\ \A a, b \in S : a # b => f[a] # f[b]
    /\ \A a \in S : g.lab[a] = out.lab[f[a]]
    /\ \A a, b \in S : Adj(g, a, b) <=> Adj(out, f[a], f[b])
ExplainedBy(g, p, out, m) ==
    LET M == Image(p, m)
        S == Rest(g, M)
    IN IF S = {} THEN out.none
       ELSE /\ ~out.none
            /\ Len(out.lab) = Cardinality(S)
            /\ \E f \in [S -> 1..Len(out.lab)] :
                  /\ IsIso(g, S, out, f)
                  /\ out.pairs = {<<f[c[1]], c[2]>> : c \in Cut(g, M)}
Explained(g, p, out) == \E m \in Embeddings(p, g) : ExplainedBy(g, p, out, m)
ExplainedPreferred(g, p, out) == \E m \in Preferred(p, g) : ExplainedBy(g, p, out, m)

\* ---- what makes the output usable by the merge step (design level) -------
\* gluing the rest and the matched part back along the reported pairs gives the molecule:
\* every bond of the molecule is a bond of the rest, a bond inside the match, or a reported pair
Reassembles(g, M) ==
    g.edges = RestEdges(g, M) \cup {e \in g.edges : e \subseteq M} \cup {{c[1], c[2]} : c \in Cut(g, M)}
\* no atom is lost or duplicated
Conserves(g, M) == Rest(g, M) \cup M = Atoms(g) /\ Rest(g, M) \cap M = {}
\* every returned fragment has an attachment point (molecules are connected)
EveryFragmentAttached(g, M) ==
    M # {} => \A comp \in Components(g, Rest(g, M)) : \E c \in Cut(g, M) : c[1] \in comp
=============================================================================
