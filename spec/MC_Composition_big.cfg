CONSTANTS
  Elems = {"C", "H", "O"}
  MaxN = 3
  MaxQ = 2
  QZero = FALSE
  Mutation = "none"
SPECIFICATION Spec
INVARIANT InvVerdict
INVARIANT InvDiff
INVARIANT InvBothSide
INVARIANT InvWater
INVARIANT InvBalanceIsExact
CHECK_DEADLOCK FALSE
