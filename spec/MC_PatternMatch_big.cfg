CONSTANTS
  MaxAtoms = 5
  Elements = {"C", "N", "O", "S"}
  AllowRing = TRUE
  CheckRenumbering = FALSE
SPECIFICATION Spec
INVARIANT Complete
INVARIANT SoundOnTrees
INVARIANT RenumberingInvariant
CHECK_DEADLOCK FALSE
