CONSTANTS
  ValenceGuard = FALSE
SPECIFICATION Spec
INVARIANT InvNoMapLeft
INVARIANT InvSemPreservedOrHypervalent
INVARIANT InvHypervalentReallyBreaks
CHECK_DEADLOCK FALSE
