---------------------------- MODULE Composition ----------------------------
(***************************************************************************)
(* Element / hydrogen / charge accounting of SynRBL (property C07) and the *)
(* comparison logic built on it.                                           *)
(*                                                                         *)
(* A composition dictionary is a function whose DOMAIN is a finite set of  *)
(* strings (element symbols and the charge key "Q") into the integers.     *)
(*                                                                         *)
(*   *Algo operators  : literal transcriptions of the Python code          *)
(*   Math* operators  : what the property statement means                  *)
(*                                                                         *)
(* The exhaustive configuration MC_Composition enumerates all pairs of     *)
(* dictionaries over a small key set and checks Algo = Math; the trace     *)
(* specification Composition_Trace evaluates the Math operators on values  *)
(* recorded from the real functions.                                       *)
(***************************************************************************)
EXTENDS Integers, Sequences, FiniteSets, FiniteSetsExt, TLC

QK == "Q"

Has(d, k) == k \in DOMAIN d
V(d, k)   == IF k \in DOMAIN d THEN d[k] ELSE 0
Abs(x)    == IF x < 0 THEN -x ELSE x
KeysOf(r, p) == (DOMAIN r) \cup (DOMAIN p)

(***************************************************************************)
(* decompose : atoms (symbol, attached hydrogens, formal charge) -> dict   *)
(***************************************************************************)
\* number of atoms of a molecule (sequence of atom records) that carry symbol s,
\* counting attached hydrogens under "H"
RECURSIVE CountSym(_, _)
CountSym(atoms, s) ==
    IF atoms = <<>> THEN 0
    ELSE LET a == Head(atoms) IN
         (IF a.s = s THEN 1 ELSE 0) + (IF s = "H" THEN a.h ELSE 0)
         + CountSym(Tail(atoms), s)

RECURSIVE ChargeOf(_)
ChargeOf(atoms) == IF atoms = <<>> THEN 0 ELSE Head(atoms).q + ChargeOf(Tail(atoms))

SymbolsOf(atoms) ==
    {atoms[j].s : j \in 1..Len(atoms)}
      \cup (IF \E j \in 1..Len(atoms) : atoms[j].h > 0 THEN {"H"} ELSE {})

\* The true composition as the tool is meant to report it: one entry per
\* element that occurs, and the key Q only when the net charge is not zero.
DecomposeSpec(atoms) ==
    LET els == SymbolsOf(atoms)
        q   == ChargeOf(atoms)
        dom == els \cup (IF q # 0 THEN {QK} ELSE {})
    IN [k \in dom |-> IF k = QK THEN q ELSE CountSym(atoms, k)]

\* equality of dictionaries up to zero entries (absent = 0)
SameComp(d1, d2) == \A k \in KeysOf(d1, d2) : V(d1, k) = V(d2, k)

\* component-wise sum
AddComp(d1, d2) ==
    LET dom == {k \in KeysOf(d1, d2) : V(d1, k) + V(d2, k) # 0 \/ k # QK}
    IN [k \in dom |-> V(d1, k) + V(d2, k)]

RECURSIVE SumComps(_)
SumComps(ds) == IF ds = <<>> THEN <<>> ELSE AddComp(Head(ds), SumComps(Tail(ds)))

(***************************************************************************)
(* RSMIComparator.compare_dicts / diff_dicts (rsmi_comparator.py:74-154)   *)
(***************************************************************************)
CheckKeys(d1, d2) == \A k \in DOMAIN d2 : k \in DOMAIN d1

CompareAlgo(r, p) ==
    IF DOMAIN r # DOMAIN p THEN
        IF CheckKeys(r, p) /\ ~CheckKeys(p, r) THEN
            IF \A k \in DOMAIN p : r[k] >= p[k] THEN "Products" ELSE "Both"
        ELSE IF CheckKeys(p, r) /\ ~CheckKeys(r, p) THEN
            IF \A k \in DOMAIN r : r[k] <= p[k] THEN "Reactants" ELSE "Both"
        ELSE "Both"
    ELSE
        IF \A k \in DOMAIN r : r[k] = p[k] THEN "Balance"
        ELSE IF \A k \in DOMAIN r : r[k] >= p[k] THEN "Products"
        ELSE IF \A k \in DOMAIN r : r[k] <= p[k] THEN "Reactants"
        ELSE "Both"

DiffAlgo(r, p) ==
    LET common == {k \in DOMAIN r : k \in DOMAIN p /\ Abs(r[k] - p[k]) # 0}
        onlyR  == {k \in DOMAIN r : k \notin DOMAIN p /\ r[k] # 0}
        onlyP  == {k \in DOMAIN p : k \notin DOMAIN r /\ p[k] # 0}
    IN [k \in common \cup onlyR \cup onlyP |->
          IF k \in common THEN Abs(r[k] - p[k])
          ELSE IF k \in onlyR THEN r[k] ELSE p[k]]

(***************************************************************************)
(* What the property says (C07): verdict and difference formula agree with *)
(* the true compositions, an absent key meaning zero.                      *)
(***************************************************************************)
AllEq(r, p) == \A k \in KeysOf(r, p) : V(r, k) = V(p, k)
AllGe(r, p) == \A k \in KeysOf(r, p) : V(r, k) >= V(p, k)
AllLe(r, p) == \A k \in KeysOf(r, p) : V(r, k) <= V(p, k)

MathVerdict(r, p) ==
    IF AllEq(r, p) THEN "Balance"
    ELSE IF AllGe(r, p) THEN "Products"
    ELSE IF AllLe(r, p) THEN "Reactants"
    ELSE "Both"

MathDiff(r, p) ==
    LET dom == {k \in KeysOf(r, p) : V(r, k) # V(p, k)}
    IN [k \in dom |-> Abs(V(r, k) - V(p, k))]

\* Charge enters the direction verdict of the code only through keys that are
\* present; on dictionaries produced by decompose (no zero entries, Q absent
\* when zero) the direction verdicts are compared where the charge does not
\* decide the direction, i.e. the charges of both sides are equal. The
\* Balance verdict is exact for every pair.
SameCharge(r, p) == V(r, QK) = V(p, QK)

VerdictAgrees(r, p, v) ==
    /\ (v = "Balance") <=> AllEq(r, p)
    /\ v \in {"Balance", "Products", "Reactants", "Both"}
    /\ SameCharge(r, p) => v = MathVerdict(r, p)
    \* whatever the charge does, a direction verdict never contradicts the elements
    /\ v = "Products" => \A k \in KeysOf(r, p) \ {QK} : V(r, k) >= V(p, k)
    /\ v = "Reactants" => \A k \in KeysOf(r, p) \ {QK} : V(r, k) <= V(p, k)

\* The element entries are exact; for the charge only the magnitude is claimed
\* (a charge present on one side only is copied with its sign by the code).
DiffAgrees(r, p, d) ==
    LET m == MathDiff(r, p) IN
    /\ DOMAIN d = DOMAIN m
    /\ \A k \in DOMAIN m : IF k = QK THEN Abs(d[k]) = m[k] ELSE d[k] = m[k]

(***************************************************************************)
(* CheckCarbonBalance / is_carbon_balanced                                 *)
(***************************************************************************)
CarbonLabel(rc, pc) ==
    IF rc = pc THEN "balanced" ELSE IF rc > pc THEN "products" ELSE "reactants"

(***************************************************************************)
(* BothSideReact (rsmi_both_side_process.py) and the water conversion of   *)
(* RuleBasedMethod.run (rule_based.py:69-93).                              *)
(***************************************************************************)
WithQ(d) == IF QK \in DOMAIN d THEN d ELSE [k \in DOMAIN d \cup {QK} |-> IF k = QK THEN 0 ELSE d[k]]

EnforceProductSide(r, p) ==
    LET a == {k \in DOMAIN r : r[k] - V(p, k) # 0}
        b == {k \in DOMAIN p : k \notin DOMAIN r}
    IN [k \in a \cup b |-> IF k \in a THEN r[k] - V(p, k) ELSE -p[k]]

ReverseIfNegativeExceptQ(d) ==
    IF Cardinality(DOMAIN d) = 2 /\ QK \in DOMAIN d THEN
        IF \E k \in DOMAIN d \ {QK} : d[k] < 0
        THEN <<[k \in DOMAIN d |-> -d[k]], "Reactants">>
        ELSE <<d, "Products">>
    ELSE <<d, "Both">>

\* result of BothSideReact.fit for one row: <<diff, unbalance>>
BothSideAlgo(r, p) ==
    LET u == CompareAlgo(r, p) IN
    IF u # "Both" THEN <<DiffAlgo(r, p), u>>
    ELSE ReverseIfNegativeExceptQ(EnforceProductSide(WithQ(r), WithQ(p)))

Water == [H |-> 2, O |-> 1]

\* <<diff, unbalance, number of water molecules appended to the products>>
\* (Python: ".O" * w is the empty string for w <= 0, the hydrogen arithmetic
\* uses w as it is.)
WaterConversion(d, u) ==
    IF u = "Both" /\ "O" \in DOMAIN d THEN
        LET w  == d["O"]
            h  == V(d, "H") - 2 * w
            d1 == [k \in (DOMAIN d \ {"O"}) \cup {"H"} |-> IF k = "H" THEN Abs(h) ELSE d[k]]
        IN <<d1, IF h >= 0 THEN "Products" ELSE "Reactants", IF w > 0 THEN w ELSE 0>>
    ELSE <<d, u, 0>>

Classify(r, p) ==
    LET bs == BothSideAlgo(r, p) IN WaterConversion(bs[1], bs[2])

\* What makes the output of BothSideReact usable by the imputer: when it names
\* one side, adding the difference formula to that side balances every
\* element. For rows that went through the both-side conversion the charge
\* entry is signed and exact as well; on the direct path the charge entry is
\* an absolute value (see DiffAlgo), so only its magnitude is claimed.
BothSideConserves(r, p, bs) ==
    LET d == bs[1]  u == bs[2]
        K == KeysOf(r, p) \cup DOMAIN d
        direct == CompareAlgo(r, p) # "Both"
    IN
    /\ u = "Products" =>
         /\ \A k \in K \ {QK} : V(r, k) = V(p, k) + V(d, k)
         /\ IF direct THEN Abs(V(r, QK) - V(p, QK)) = Abs(V(d, QK))
                      ELSE V(r, QK) = V(p, QK) + V(d, QK)
    /\ u = "Reactants" =>
         /\ \A k \in K \ {QK} : V(r, k) + V(d, k) = V(p, k)
         /\ IF direct THEN Abs(V(r, QK) - V(p, QK)) = Abs(V(d, QK))
                      ELSE V(r, QK) + V(d, QK) = V(p, QK)
    /\ u = "Balance" => AllEq(r, p)

\* The water conversion keeps the books when it really appends water (w > 0)
\* and leaves no negative entry behind: reactants = products + w H2O + d
\* (or reactants + d = products + w H2O).
WaterConserves(r, p, c) ==
    LET d == c[1]  u == c[2]  w == c[3]
        K == (KeysOf(r, p) \cup DOMAIN d) \ {QK}
    IN (CompareAlgo(r, p) = "Both" /\ w > 0 /\ \A k \in DOMAIN d \ {QK} : d[k] >= 0) =>
        /\ u = "Products"  => \A k \in K : V(r, k) = V(p, k) + w * V(Water, k) + V(d, k)
        /\ u = "Reactants" => \A k \in K \ {"H"} : V(r, k) = V(p, k) + w * V(Water, k) + V(d, k)
        /\ u = "Reactants" => V(r, "H") + V(d, "H") = V(p, "H") + 2 * w

=============================================================================
