CONSTANTS
  Batches = {"b1", "b2"}
  Cfgs = {"t0", "t5"}
  MaxRuns = 2
  MaxBatchesPerRun = 2
  KeyIncludesConfig = TRUE
  AtomicWrite = TRUE
  TolerantLoad = TRUE
SPECIFICATION Spec
INVARIANT CacheTransparent
INVARIANT FinalFilesWhole
INVARIANT EntriesMatchKeys
CHECK_DEADLOCK FALSE
