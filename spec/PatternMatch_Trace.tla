--------------------------- MODULE PatternMatch_Trace ---------------------------
(* C16. "pm" events: one small molecule graph enumerated by TLC's molecule builder, *)
(* one pattern, and for every anchor atom what the real pattern_match returned      *)
(* (TLC evaluates Occurs and FitsAlgo on the logged graphs). "fg" events: one       *)
(* (molecule, group, atom) of the corpus: real is_functional_group answer for the   *)
(* given numbering and for random renumberings, and reference occurrences of the    *)
(* group's patterns computed by an independent exact subgraph matcher.              *)
EXTENDS PatternMatch, Json, IOUtils

Log == ndJsonDeserialize(IOEnv.TRACE_FILE)
VARIABLES i, bad
tvars == <<i, bad>>
Fails(e, pos, clause, ok) == IF ok THEN <<>> ELSE << <<e.id, pos, clause>> >>

JudgePm(e) ==
    LET g == e.mol  p == e.pat
        F[a \in 0..g.n] ==
          IF a = 0 THEN <<>>
          ELSE LET occ == Occurs(g, a, p)  alg == FitsAlgo(g, a, p)  real == e.real[a] IN
               F[a - 1]
               \o Fails(e, a, "EveryOccurrenceFound", occ => real)
               \o Fails(e, a, IF e.ring /\ real = alg THEN "MatchIsRealOccurrence/ring-overlap" ELSE "MatchIsRealOccurrence",
                        real => occ)
               \o Fails(e, a, "DRIFT_AlgorithmModel", real = alg)
               \o Fails(e, a, "HARNESS_ReferenceMatcher", e.ref[a] = occ)
    IN F[g.n]

JudgeFg(e) ==
    LET ref == (\E k \in 1..Len(e.refP) : e.refP[k] /\ e.refG[k]) /\ (\A k \in 1..Len(e.refA) : ~e.refA[k]) IN
       Fails(e, 0, "RenumberingInvariant", \A k \in 1..Len(e.renum) : e.renum[k] = e.real)
    \* the rule-condition entry point gives the answer of is_functional_group, in every atom order
    \o Fails(e, 0, "RuleConditionAgrees", \A k \in 1..Len(e.wrap) : e.wrap[k] = e.real)
    \o Fails(e, 0,
             IF e.graphs /\ e.real = IsGroup(e.mol, e.atom + 1, e.pats, e.grps, e.antis)
             THEN "AgreesWithReference/ring-overlap"     \* the real code does what the transcription of its search does
             ELSE IF e.in_ring THEN "AgreesWithReference/ring" ELSE "AgreesWithReference",
             e.real = ref)

Judge(e) == CASE e.ev = "pm" -> JudgePm(e)
              [] e.ev = "fg" -> JudgeFg(e)
              [] OTHER -> << <<e.id, 0, "UnknownEvent">> >>
TInit == i = 1 /\ bad = <<>> /\ TLCSet(1, <<>>)
TNext == /\ i <= Len(Log)
         /\ i' = i + 1
         /\ bad' = bad \o Judge(Log[i])
         /\ TLCSet(1, bad')
TSpec == TInit /\ [][TNext]_tvars
Post == JsonSerialize(IOEnv.VERDICT_FILE,
          [consumed |-> TLCGet("stats").diameter - 1, total |-> Len(Log), bad |-> TLCGet(1)])
=============================================================================
