CONSTANTS
  N = 4
  NC = 2
  IdOf <- IdPos
  UseZip = TRUE
SPECIFICATION Spec
INVARIANT Attribution
CHECK_DEADLOCK FALSE
