CONSTANTS
  N = 4
  NC = 2
  UseZip = TRUE
SPECIFICATION Spec
INVARIANT Attribution
CHECK_DEADLOCK FALSE
