---------------------------- MODULE Pipeline_Trace ----------------------------
(* Stage-level conformance of the real pipeline with Pipeline.tla.                *)
(* One log entry = the history of ONE row of a real rebalance() call: the abstract *)
(* projection of the hook snapshot taken after each of the 11 stages. The trace    *)
(* specification steps Pipeline.tla's own actions (Recheck is a silent step: no    *)
(* snapshot is taken between the second rule-based run and the final validation)   *)
(* and requires the primed variables to match the next snapshot; variables that    *)
(* are not logged (memo, validated, stats, how many completions were appended) are *)
(* left to the actions. Rows are checked one after the other in one TLC run; the    *)
(* furthest snapshot reached for each row is kept in a TLC register, so the run is  *)
(* total: a row whose history is not a behaviour of the model is reported (model    *)
(* drift), the following rows are still checked.                                    *)
EXTENDS Pipeline, Json, IOUtils

Rows == ndJsonDeserialize(IOEnv.TRACE_FILE)

VARIABLES r, l
tvars == <<vars, r, l>>

IssueClass(x) == IF x = Absent THEN "absent" ELSE IF x = "" THEN "empty" ELSE "text"

RowInit(k) ==
    /\ pc = "preprocess"
    /\ inp = Rows[k].inp /\ cur = Rows[k].inp /\ added = 0
    /\ thr = Rows[k].thr /\ confO = Rows[k].conf
    /\ solved = FALSE /\ by = Absent /\ issue = Absent /\ mcsKey = "absent"
    /\ clabel = "unset" /\ ulabel = "unset" /\ conf = -1
    /\ validated = <<>> /\ memo = <<>> /\ stats = Stat0

TInit == r = 1 /\ l = 0 /\ RowInit(1) /\ TLCSet(11, 0)

Matches(s) ==
    /\ cur' = s.cur
    /\ (added' = 0) = s.same
    /\ solved' = s.solved /\ by' = s.by
    /\ IssueClass(issue') = s.issue
    /\ mcsKey' = s.mcs
    /\ clabel' = s.clabel
    /\ conf' = s.conf

Logged == /\ r <= Len(Rows) /\ l < Len(Rows[r].stages)
          /\ pc = Rows[r].stages[l + 1].name
          /\ Next
          /\ Matches(Rows[r].stages[l + 1])
          /\ l' = l + 1 /\ r' = r
          /\ TLCSet(10 + r, IF TLCGet(10 + r) < l + 1 THEN l + 1 ELSE TLCGet(10 + r))

Silent == /\ r <= Len(Rows) /\ pc = "recheck" /\ Recheck /\ UNCHANGED <<r, l>>

\* move on when the row is finished or stuck
NextRow ==
    /\ r <= Len(Rows)
    /\ ~ENABLED (Logged \/ Silent)
    /\ r' = r + 1 /\ l' = 0
    /\ IF r + 1 <= Len(Rows)
       THEN /\ pc' = "preprocess"
            /\ inp' = Rows[r + 1].inp /\ cur' = Rows[r + 1].inp /\ added' = 0
            /\ thr' = Rows[r + 1].thr /\ confO' = Rows[r + 1].conf
            /\ solved' = FALSE /\ by' = Absent /\ issue' = Absent /\ mcsKey' = "absent"
            /\ clabel' = "unset" /\ ulabel' = "unset" /\ conf' = -1
            /\ validated' = <<>> /\ memo' = <<>> /\ stats' = Stat0
            /\ TLCSet(10 + r + 1, 0)
       ELSE UNCHANGED vars

TNext == Logged \/ Silent \/ NextRow
TSpec == TInit /\ [][TNext]_tvars

Post == JsonSerialize(IOEnv.VERDICT_FILE,
          [consumed |-> Len(Rows), total |-> Len(Rows),
           bad |-> [k \in 1..Len(Rows) |-> TLCGet(10 + k)]])
=============================================================================
