---------------------------- MODULE MC_MissingGraph ----------------------------
(* Bounded instance: saturated skeletons of up to MaxN atoms over Labels on a   *)
(* fixed list of shapes (paths, branched trees, rings with and without tails);  *)
(* the matched atoms are any non-empty connected atom set. TLC checks the       *)
(* design-level facts on every case; the cases are dumped and replayed through  *)
(* the real function.                                                           *)
EXTENDS MissingGraph

CONSTANTS Labels, MaxN, Mutation

Val(l) == CASE l = "C" -> 4 [] l = "N" -> 3 [] l = "O" -> 2 [] OTHER -> 1

E(s) == {{x[1], x[2]} : x \in s}
Shapes ==
  { [n |-> 1, e |-> {}],
    [n |-> 2, e |-> E({<<1,2>>})],
    [n |-> 3, e |-> E({<<1,2>>, <<2,3>>})],
    [n |-> 3, e |-> E({<<1,2>>, <<2,3>>, <<1,3>>})],
    [n |-> 4, e |-> E({<<1,2>>, <<2,3>>, <<3,4>>})],
    [n |-> 4, e |-> E({<<1,2>>, <<1,3>>, <<1,4>>})],
    [n |-> 4, e |-> E({<<1,2>>, <<2,3>>, <<3,4>>, <<1,4>>})],
    [n |-> 4, e |-> E({<<1,2>>, <<2,3>>, <<1,3>>, <<3,4>>})],
    [n |-> 5, e |-> E({<<1,2>>, <<2,3>>, <<3,4>>, <<4,5>>})],
    [n |-> 5, e |-> E({<<1,2>>, <<2,3>>, <<3,4>>, <<2,5>>})],
    [n |-> 5, e |-> E({<<1,2>>, <<1,3>>, <<1,4>>, <<1,5>>})],
    [n |-> 5, e |-> E({<<1,2>>, <<2,3>>, <<3,4>>, <<4,5>>, <<1,5>>})],
    [n |-> 5, e |-> E({<<1,2>>, <<2,3>>, <<3,4>>, <<1,4>>, <<4,5>>})],
    [n |-> 5, e |-> E({<<1,2>>, <<2,3>>, <<1,3>>, <<3,4>>, <<4,5>>})],
    [n |-> 5, e |-> E({<<1,2>>, <<2,3>>, <<1,3>>, <<3,4>>, <<3,5>>})],
    [n |-> 5, e |-> E({<<1,2>>, <<2,3>>, <<1,3>>, <<1,4>>, <<2,5>>})],
    [n |-> 6, e |-> E({<<1,2>>, <<2,3>>, <<3,4>>, <<4,5>>, <<5,6>>, <<1,6>>})],
    [n |-> 6, e |-> E({<<1,2>>, <<2,3>>, <<3,4>>, <<4,5>>, <<1,5>>, <<5,6>>})],
    [n |-> 6, e |-> E({<<1,2>>, <<2,3>>, <<3,4>>, <<4,5>>, <<5,6>>})],
    [n |-> 6, e |-> E({<<1,2>>, <<2,3>>, <<3,4>>, <<2,5>>, <<3,6>>})] }

VARIABLES g, M
vars == <<g, M>>

Graphs == UNION { { [lab |-> l, edges |-> s.e] : l \in [1..s.n -> Labels] } : s \in {s \in Shapes : s.n <= MaxN} }
ValenceOk(gr) == \A a \in Atoms(gr) : Deg(gr, a) <= Val(gr.lab[a])
Connected(gr, S) == S # {} /\ \A a \in S : ComponentOf(gr, S, a) = S

Init == /\ g \in {gr \in Graphs : ValenceOk(gr)}
        /\ M \in {S \in SUBSET Atoms(g) : Connected(g, S)}
Next == UNCHANGED vars
Spec == Init /\ [][Next]_vars

\* a wrong reading of the function, for the sensitivity run: one boundary entry per rest atom
\* (a rest atom bonded to two matched atoms, as in a ring, then loses one of its bonds)
CutUsed == IF Mutation = "one_pair_per_atom"
           THEN {c \in Cut(g, M) : \A d \in Cut(g, M) : d[1] = c[1] => c[2] <= d[2]}
           ELSE Cut(g, M)
InvReassembles ==
    g.edges = RestEdges(g, M) \cup {e \in g.edges : e \subseteq M} \cup {{c[1], c[2]} : c \in CutUsed}
InvConserves == Conserves(g, M)
InvAttached == EveryFragmentAttached(g, M)
\* the pattern cut out of the molecule (induced on M) always embeds, and the identity embedding explains
\* the expected output
=============================================================================
