CONSTANTS
  ValenceGuard = TRUE
SPECIFICATION Spec
INVARIANT InvNoMapLeft
INVARIANT InvSemPreserved
CHECK_DEADLOCK FALSE
