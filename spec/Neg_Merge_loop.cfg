CONSTANTS
  Syms = {"C", "N", "O", "S", "P", "Cl"}
  FgNames = {"ether", "ester", "amid", "keton"}
  LoopMode = "stop_at_no_rule"
SPECIFICATION Spec
INVARIANT TwoBoundariesClosed
INVARIANT TwoBoundariesOrderFree
CHECK_DEADLOCK FALSE
