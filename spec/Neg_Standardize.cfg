CONSTANTS
  FixpointLoop = FALSE
  CheckRewriteResult = FALSE
  MaxRedexes = 3
SPECIFICATION Spec
INVARIANT ReturnsSmiles
INVARIANT AtomsConserved
INVARIANT Idempotent
INVARIANT NoIntermediateError
CHECK_DEADLOCK FALSE
