------------------------------- MODULE AtomMap -------------------------------
(***************************************************************************)
(* remove_atom_mapping (SynUtils/chem_utils.py:145-150), C15.               *)
(*                                                                         *)
(* A bracket atom is a record                                               *)
(*   [iso, sym, arom, chir, h, q, map]                                      *)
(* (isotope 0 = none, element symbol, written in lower case?, chirality     *)
(* mark "" / "@" / "@@", explicit hydrogen count, formal charge, map class  *)
(* 0 = none) sitting in a bond context ctx = sum of the bond orders to its  *)
(* neighbours. The function is two regular expressions:                     *)
(*   1. drop ":n"                                                           *)
(*   2. [X], [XH], [XHn]  ->  X   for X in the organic subset written in    *)
(*      upper case and nothing else inside the brackets                     *)
(* Sem gives what RDKit reads from the token: element, isotope, charge,     *)
(* chirality and TOTAL hydrogens, where an unbracketed atom receives the    *)
(* organic-subset implicit hydrogens for its bond-order sum.                *)
(***************************************************************************)
EXTENDS Integers, Sequences, FiniteSets, TLC

CONSTANTS ValenceGuard   \* TRUE: unbracket only if the implicit H count equals the explicit one

Organic == {"B", "C", "N", "O", "P", "S", "F", "Cl", "Br", "I"}
Valences(s) ==
    CASE s = "B" -> {3} [] s = "C" -> {4} [] s = "N" -> {3} [] s = "O" -> {2}
      [] s = "P" -> {3, 5} [] s = "S" -> {2, 4, 6} [] s \in {"F", "Cl", "Br", "I"} -> {1}
      [] OTHER -> {}
\* normal valences RDKit accepts for a neutral atom carrying explicit hydrogens
FullValences(s) ==
    CASE s \in {"Cl", "Br", "I"} -> {1, 3, 5, 7} [] s = "N" -> {3, 5} [] s = "P" -> {3, 5, 7} [] OTHER -> Valences(s)

ImplicitH(s, ctx) ==
    LET vs == {v \in Valences(s) : v >= ctx} IN
    IF vs = {} THEN 0 ELSE (CHOOSE v \in vs : \A w \in vs : v <= w) - ctx

\* the bracket atom is a closed-shell species (no radical): its total valence is a normal one
ClosedShell(a, ctx) ==
    a.sym \in Organic /\ a.q = 0 /\ ~a.arom => (a.h + ctx) \in FullValences(a.sym)

\* what regex 2 decides on the bracket content once ":n" is gone
RegexUnbrackets(a) == a.sym \in Organic /\ ~a.arom /\ a.iso = 0 /\ a.chir = "" /\ a.q = 0

Unbrackets(a, ctx) ==
    RegexUnbrackets(a) /\ (ValenceGuard => a.h = ImplicitH(a.sym, ctx))

\* result token: [bracketed?, atom without map]
RemoveMap(a, ctx) == [bracket |-> ~Unbrackets(a, ctx), atom |-> [a EXCEPT !.map = 0]]

\* (element, isotope, charge, chirality, total hydrogens) read from a token
Sem(tok, ctx) ==
    IF tok.bracket THEN <<tok.atom.sym, tok.atom.iso, tok.atom.q, tok.atom.chir, tok.atom.h>>
    ELSE <<tok.atom.sym, 0, 0, "", ImplicitH(tok.atom.sym, ctx)>>

SemPreserved(a, ctx) ==
    Sem(RemoveMap(a, ctx), ctx) = Sem([bracket |-> TRUE, atom |-> [a EXCEPT !.map = 0]], ctx)
NoMapLeft(a, ctx) == RemoveMap(a, ctx).atom.map = 0

\* the only atom forms on which the as-built function changes the molecule: a
\* neutral organic-subset atom whose explicit hydrogens make it hypervalent
HypervalentHydride(a, ctx) ==
    /\ RegexUnbrackets(a) /\ a.h > 0
    /\ a.h # ImplicitH(a.sym, ctx)
=============================================================================
