CONSTANTS
  RecheckAfterTemplate = TRUE
  MaxAdded = 3
  Thresholds = {0, 1, 2}
  IncomingSolved = {FALSE}
  ResetIncoming = TRUE
  ConfStrict = TRUE
SPECIFICATION Spec
INVARIANT C01_SolvedBalanced
INVARIANT C03_DeclinedUntouched
INVARIANT C03_DeclinedHasReason
INVARIANT C03_SolvedNamesMethod
INVARIANT C03_CarbonDeficitDeclined
INVARIANT C04_BalancedPassThrough
INVARIANT C04_OnlyBalancedLabelled
INVARIANT C13_Boundary
INVARIANT C13_OthersUntouched
INVARIANT C13_DemotedNamesThreshold
INVARIANT C18_Stats
PROPERTY SolvedMonotone
PROPERTY SolvedFrame
CHECK_DEADLOCK FALSE
