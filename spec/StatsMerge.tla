------------------------------ MODULE StatsMerge ------------------------------
(***************************************************************************)
(* merge_stats (synrbl/balancing.py:18-28) and the accumulation of the      *)
(* per-batch statistics in Balancer.rebalance (C06, C18): the caller's      *)
(* dictionary starts empty (or with anything the caller put there), every   *)
(* batch contributes a dictionary whose key set may differ (a batch in      *)
(* which the pipeline raised contributes nothing; a batch of malformed rows *)
(* only contributes default zeros), and after all batches every key must    *)
(* hold the SUM of the contributions - whatever the partition.              *)
(***************************************************************************)
EXTENDS Integers, Sequences, FiniteSets, TLC

CONSTANTS Keys, MaxBatches, MaxVal, KeepMissingKeys   \* KeepMissingKeys = TRUE: the code

V(d, k) == IF k \in DOMAIN d THEN d[k] ELSE 0

\* transcription: add for common keys, copy the keys that are new
MergeAlgo(stats, new) ==
    LET common == {k \in DOMAIN stats : k \in DOMAIN new}
        fresh  == IF KeepMissingKeys THEN {k \in DOMAIN new : k \notin DOMAIN stats} ELSE {}
    IN [k \in DOMAIN stats \cup fresh |->
          IF k \in common THEN stats[k] + new[k]
          ELSE IF k \in fresh THEN new[k] ELSE stats[k]]

Dicts == UNION {[S -> 0..MaxVal] : S \in SUBSET Keys}

VARIABLES batches, acc, done
vars == <<batches, acc, done>>

Init == /\ batches \in UNION {[1..n -> Dicts] : n \in 0..MaxBatches}
        /\ acc = <<>> /\ done = 0
Step == /\ done < Len(batches)
        /\ acc' = MergeAlgo(acc, batches[done + 1])
        /\ done' = done + 1 /\ UNCHANGED batches
Spec == Init /\ [][Step]_vars

RECURSIVE SumKey(_, _, _)
SumKey(bs, k, n) == IF n = 0 THEN 0 ELSE V(bs[n], k) + SumKey(bs, k, n - 1)

TotalsAreSums == \A k \in Keys : V(acc, k) = SumKey(batches, k, done)
NoInventedKeys == DOMAIN acc \subseteq UNION {DOMAIN batches[j] : j \in 1..done}
=============================================================================
