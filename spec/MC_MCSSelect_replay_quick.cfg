CONSTANTS
  NC = 3
  NP = 2
  MaxT = 1
  Mutation = "none"
SPECIFICATION Spec
INVARIANT InvLargest
INVARIANT InvNonEmpty
INVARIANT InvOrder
INVARIANT InvSameReaction
INVARIANT InvUniqueBestKept
CHECK_DEADLOCK FALSE
