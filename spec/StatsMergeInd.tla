---------------------------- MODULE StatsMergeInd ----------------------------
(* Apalache: merge_stats keeps "every key holds the sum of the contributions" as *)
(* an INDUCTIVE invariant - for any number of batches and any counts (unbounded   *)
(* integers), which the bounded TLC runs of StatsMerge.tla cannot say. The        *)
(* sequence of batches is replaced by a ghost total per key; a step merges an     *)
(* arbitrary partial dictionary.                                                  *)
(*   apalache-mc check --init=Init    --inv=IndInv --length=0 StatsMergeInd.tla   *)
(*   apalache-mc check --init=IndInit --inv=IndInv --length=1 StatsMergeInd.tla   *)
(*   apalache-mc check --init=IndInit --inv=IndInv --length=1 --next=NextDrop ... *)
(*       (the variant that drops keys missing from the caller's dictionary must   *)
(*        be reported as a violation)                                              *)
EXTENDS Integers, FiniteSets, Apalache

Keys == {"reaction_cnt", "balanced_cnt", "rb_applied", "rb_solved", "mcs_applied", "mcs_solved", "confident_cnt"}

VARIABLES
    \* @type: Str -> Int;
    acc,      \* the caller's dictionary (partial function over Keys)
    \* @type: Str -> Int;
    tot       \* ghost: per key, the sum of everything contributed so far

\* @type: (Str -> Int, Str) => Int;
V(d, k) == IF k \in DOMAIN d THEN d[k] ELSE 0

\* @type: (Str -> Int, Str -> Int, Bool) => (Str -> Int);
MergeAlgo(stats, new, keepMissing) ==
    LET fresh == IF keepMissing THEN {k \in DOMAIN new : k \notin DOMAIN stats} ELSE {}
    IN [k \in DOMAIN stats \cup fresh |->
          IF k \in DOMAIN stats /\ k \in DOMAIN new THEN stats[k] + new[k]
          ELSE IF k \in fresh THEN new[k] ELSE stats[k]]

\* @type: Str -> Int;
Empty == [k \in {} |-> 0]

Init == acc = Empty /\ tot = [k \in Keys |-> 0]

Merge(keepMissing) ==
    \E D \in SUBSET Keys : \E new \in [D -> Nat] :
        /\ acc' = MergeAlgo(acc, new, keepMissing)
        /\ tot' = [k \in Keys |-> tot[k] + V(new, k)]
Next == Merge(TRUE)
NextDrop == Merge(FALSE)

IndInv == /\ DOMAIN acc \subseteq Keys
          /\ DOMAIN tot = Keys
          /\ \A k \in Keys : V(acc, k) = tot[k]
IndInit == acc = Gen(7) /\ tot = Gen(7) /\ IndInv
=============================================================================
