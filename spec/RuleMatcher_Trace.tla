-------------------------- MODULE RuleMatcher_Trace --------------------------
(* C08: calls of the real SyntheticRuleMatcher.match / SyntheticRuleImputer     *)
(* .single_impute / RuleConstraint.fit judged by RuleMatcher.tla. "db" events   *)
(* load a rule database (recorded composition next to the oracle's true         *)
(* composition of the SMILES); "match" events carry an imbalance and everything *)
(* the real solver returned for it.                                             *)
EXTENDS RuleMatcher, Json, IOUtils

Log == ndJsonDeserialize(IOEnv.TRACE_FILE)
VARIABLES i, dbs, bad
tvars == <<i, dbs, bad>>

Fails(e, clause, ok) == IF ok THEN <<>> ELSE << <<e.id, clause>> >>
SameDict(a, b) == \A k \in DOMAIN a \cup DOMAIN b : V(a, k) = V(b, k)

JudgeDb(e) ==
    LET F[j \in 0..Len(e.records)] ==
          IF j = 0 THEN <<>>
          ELSE F[j - 1]
               \o (IF e.records[j].valid /\ SameDict(e.records[j].comp, e.records[j].oracle)
                      /\ QK \in DOMAIN e.records[j].comp
                   THEN <<>> ELSE << <<e.id, "DatabaseCompositionTrue:" \o e.records[j].smiles>> >>)
    IN F[Len(e.records)]

AsSetJ(sol) == {<<sol[j].smiles, sol[j].ratio>> : j \in 1..Len(sol)}

JudgeMatch(e) ==
    LET db   == dbs[e.db]
        recs == [j \in 1..Len(db) |-> [smiles |-> db[j].smiles, comp |-> db[j].comp]]
        orac(s) == LET j == CHOOSE j \in 1..Len(db) : db[j].smiles = s IN db[j].oracle
        ion(s)  == LET j == CHOOSE j \in 1..Len(db) : db[j].smiles = s IN db[j].ionic
        sols == {AsSetJ(e.solutions[j]) : j \in 1..Len(e.solutions)}
        data == Normalise(e.data)
        known == \A s \in sols : FromDatabase(s, recs)
    IN   Fails(e, "FromDatabase", known)
      \o (IF known THEN
               Fails(e, "CompletionsExact", \A s \in sols : Exact(s, data, orac))
            \o Fails(e, "PositiveRatios", \A s \in sols : PositiveRatios(s))
            \o Fails(e, "DRIFT_WellRanked",
                     (e.mode = "all/ion_priority" /\ Len(e.solutions) > 0) => WellRanked(AsSetJ(e.solutions[1]), sols, ion))
            \o Fails(e, "NoDuplicateCompletions", Len(e.solutions) = Cardinality(sols))
            \* with the ion_priority ranking match() returns the shortest completions only; the
            \* model's solution set is recomputed for imbalances of at most 7 atoms (the search is
            \* exponential in the number of atoms)
            \o (IF e.natoms > 7 \/ e.mode # "all/ion_priority" THEN <<>> ELSE
                LET all == Solutions(recs, e.data)
                    shortest == {s \in all : \A t \in all : Cardinality(s) <= Cardinality(t)}
                IN   Fails(e, "DRIFT_ShortestOfAll",
                           \A s \in sols : \A t \in all : Cardinality(s) <= Cardinality(t))
                  \o Fails(e, "DRIFT_SolutionSetMatchesModel", sols = shortest))
          ELSE <<>>)

\* single_impute: the chosen completion is appended, molecule by molecule, to the
\* side named by Unbalance; nothing else changes. e.appended is the list of
\* database SMILES appended (textual components), e.side the side that grew.
JudgeImpute(e) ==
    LET db   == dbs[e.db]
        orac(s) == LET j == CHOOSE j \in 1..Len(db) : db[j].smiles = s IN db[j].oracle
        cnt(s) == Cardinality({j \in 1..Len(e.appended) : e.appended[j] = s})
        asSet == {<<e.appended[j], cnt(e.appended[j])>> : j \in 1..Len(e.appended)}
        known == \A j \in 1..Len(e.appended) : \E m \in 1..Len(db) : db[m].smiles = e.appended[j]
    IN   Fails(e, "OtherSideUntouched", e.other_unchanged /\ e.prefix_unchanged)
      \o Fails(e, "AppendedFromDatabase", known)
      \o (IF known /\ Len(e.appended) > 0
          THEN Fails(e, "AppendedExact", Exact(asSet, Normalise(e.data), orac))
               \o Fails(e, "SideMatchesVerdict",
                        e.side = (IF e.unbalance = "Products" THEN "products" ELSE "reactants"))
          ELSE <<>>)

\* RuleConstraint.fit: accepted entries never carry a banned molecule on the
\* product side (oracle identity of each product molecule)
JudgeConstrain(e) ==
       Fails(e, "NoBannedProductAccepted", e.accepted => ~e.has_banned_product)
    \o Fails(e, "EveryEntryClassified", e.accepted \/ e.rejected)
    \* the redox rewrites of the constraint step ([H] pairs -> water with [O] on the left, [O] / HOOH -> water with
    \* hydrogen on the left) move atoms on both sides alike: products minus reactants is what it was
    \o Fails(e, "ConstraintKeepsDifference", e.accepted => e.delta_out = e.delta_in)
    \o Fails(e, "NewReactionIsItsSides", e.accepted => e.new_reaction_is_sides)

Judge(e) == CASE e.ev = "db" -> JudgeDb(e)
              [] e.ev = "match" -> JudgeMatch(e)
              [] e.ev = "impute" -> JudgeImpute(e)
              [] e.ev = "constrain" -> JudgeConstrain(e)
              [] e.ev = "parallel" -> Fails(e, "ParallelImputeAgreesWithSingle", e.same)
              [] e.ev = "rbm" ->    Fails(e, "StageDoesNotCrash", e.crashed = "")
                                 \o Fails(e, "BatchCompletionExact", e.changed => e.balanced_out)
              [] OTHER -> << <<e.id, "UnknownEvent">> >>

TInit == i = 1 /\ dbs = <<>> /\ bad = <<>> /\ TLCSet(1, <<>>)
TNext == /\ i <= Len(Log)
         /\ i' = i + 1
         /\ LET e == Log[i] IN
            /\ bad' = bad \o Judge(e)
            /\ dbs' = IF e.ev = "db"
                      THEN [k \in DOMAIN dbs \cup {e.name} |-> IF k = e.name THEN e.records ELSE dbs[k]]
                      ELSE dbs
         /\ TLCSet(1, bad')
TSpec == TInit /\ [][TNext]_tvars
Post == JsonSerialize(IOEnv.VERDICT_FILE,
          [consumed |-> TLCGet("stats").diameter - 1, total |-> Len(Log), bad |-> TLCGet(1)])
=============================================================================
