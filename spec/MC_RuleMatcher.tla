--------------------------- MODULE MC_RuleMatcher ---------------------------
(* All imbalance vectors up to MaxAtoms atoms and |charge| <= MaxQ over a small *)
(* abstract database: every completion the search returns is exact in every     *)
(* element and in charge, uses database compounds with positive multiplicity,   *)
(* and the search space is finite (depth bounded by the number of atoms).       *)
EXTENDS RuleMatcher

CONSTANTS MaxAtoms, MaxQ, Mutation

Elems == {"H", "O", "N", "X"}
R(s, c) == [smiles |-> s, comp |-> c]
DB == << R("[O]", [O |-> 1, Q |-> 0]),
         R("[H]", [H |-> 1, Q |-> 0]),
         R("[H+]", [H |-> 1, Q |-> 1]),
         R("[X-]", [X |-> 1, Q |-> -1]),
         R("XX", [X |-> 2, Q |-> 0]),
         R("O", [O |-> 1, H |-> 2, Q |-> 0]),
         R("[OH-]", [O |-> 1, H |-> 1, Q |-> -1]),
         R("N", [N |-> 1, H |-> 3, Q |-> 0]),
         R("[NH4+]", [N |-> 1, H |-> 4, Q |-> 1]),
         R("O=N[O-]", [O |-> 2, N |-> 1, Q |-> -1]),
         R("X", [H |-> 1, X |-> 1, Q |-> 0]) >>
CompOf(s) == LET j == CHOOSE j \in 1..Len(DB) : DB[j].smiles = s IN DB[j].comp

Vectors == { d \in [Elems \cup {QK} -> -MaxQ..MaxAtoms] :
               /\ \A e \in Elems : d[e] >= 0
               /\ d["H"] + d["O"] + d["N"] + d["X"] <= MaxAtoms
               /\ d["H"] + d["O"] + d["N"] + d["X"] >= 1
               /\ d[QK] <= MaxQ }

\* deliberately wrong variant (Neg_RuleMatcher.cfg): the exit test forgets the charge
ExitNoQ(data) == Cardinality(DOMAIN data) = 1
RECURSIVE PathsM(_, _)
PathsM(db, data) ==
    IF ExitNoQ(data) THEN {<<>>}
    ELSE UNION { LET rule == db[j].comp IN
                 { <<[smiles |-> db[j].smiles, ratio |-> Ratio(rule, data)]>> \o p
                     : p \in PathsM(db, ApplyData(rule, data)) }
               : j \in {j \in 1..Len(db) : CanMatch(db[j].comp, data)} }
Sols(d) == IF Mutation = "noq" THEN {AsSet(p) : p \in PathsM(SortRules(DB), Normalise(d))}
           ELSE Solutions(DB, d)

VARIABLES v, nsol
vars == <<v, nsol>>
Init == v \in Vectors /\ nsol = Cardinality(Sols(v))
Next == UNCHANGED vars
Spec == Init /\ [][Next]_vars

AllExact == \A s \in Sols(v) : Exact(s, Normalise(v), CompOf)
AllPositive == \A s \in Sols(v) : PositiveRatios(s) /\ FromDatabase(s, DB)
\* no compound is used twice in one completion and the depth is bounded
Bounded == \A s \in Sols(v) : Cardinality(s) <= MaxAtoms
=============================================================================
