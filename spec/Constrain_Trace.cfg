CONSTANTS
  AllowMarkerPrefixedInputs = TRUE
  MaxInput = 3
  MaxAdded = 3
SPECIFICATION TSpec
POSTCONDITION Post
CHECK_DEADLOCK FALSE
