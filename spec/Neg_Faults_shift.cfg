CONSTANTS
  N = 2
  NC = 2
  ShiftOnEmpty = TRUE
SPECIFICATION Spec
INVARIANT NoRowLost
INVARIANT EitherSolvedOrDeclinedWithReason
INVARIANT SolvedHasNoIssue
INVARIANT UnaffectedRowsAsWithoutFaults
INVARIANT FaultsNeverSolveMore
CHECK_DEADLOCK FALSE
