----------------------------- MODULE MC_AtomMap -----------------------------
(* Every bracket atom form x bond context in the bound. *)
EXTENDS AtomMap
Symbols == Organic \cup {"Si", "Se", "Sn", "Sc", "Na", "Cu", "Co", "Cs", "Ca", "Pd", "Pt", "Pb", "Bi", "Ba", "Be",
                         "Fe", "In", "Ir", "Os", "Ni", "Nb", "U", "Mg", "Zn", "As", "Al", "Li", "K", "Hg", "Ag"}
Atoms == [iso : {0, 13}, sym : Symbols, arom : BOOLEAN, chir : {"", "@", "@@"}, h : 0..4, q : -1..1, map : {0, 1, 12}]
VARIABLES a, ctx
vars == <<a, ctx>>
Init == /\ a \in Atoms /\ ctx \in 0..6
        /\ (a.arom => a.sym \in {"C", "N", "O", "S", "P", "B", "Se", "As"})
        /\ (a.chir # "" => a.sym \in {"C", "N", "P", "S", "Si", "Sn", "As", "Se"})
Next == UNCHANGED vars
Spec == Init /\ [][Next]_vars

InvNoMapLeft == NoMapLeft(a, ctx)
\* intended design (ValenceGuard = TRUE): closed-shell atoms are never changed
InvSemPreserved == ClosedShell(a, ctx) => SemPreserved(a, ctx)
\* as built (ValenceGuard = FALSE): the hypervalent hydrides are exactly the exceptions
InvSemPreservedOrHypervalent == ClosedShell(a, ctx) => (SemPreserved(a, ctx) \/ HypervalentHydride(a, ctx))
InvHypervalentReallyBreaks == (ClosedShell(a, ctx) /\ HypervalentHydride(a, ctx)) => ~SemPreserved(a, ctx)
=============================================================================
