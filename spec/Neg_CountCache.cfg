CONSTANTS
  Tokens <- MCTokens
  Atoms = {"C", "O"}
  Objs = {"o1", "o2"}
  Scope = "process"
  MaxCalls = 5
SPECIFICATION Spec
INVARIANT AnswersAreTrue
CHECK_DEADLOCK FALSE
