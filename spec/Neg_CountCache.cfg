CONSTANTS
  TokenIds = {"OO", "acetone", "MeOH", "ethane"}
  Atoms = {"C", "O"}
  Objs = {"o1", "o2"}
  Scope = "process"
  MaxCalls = 5
  TC <- MCTrue
SPECIFICATION Spec
CONSTRAINT Bounded
INVARIANT AnswersAreTrue
CHECK_DEADLOCK FALSE
