------------------------------ MODULE API_Trace ------------------------------
(* Judges every row returned by real rebalance() calls (event "row") and the *)
(* statistics of every call (event "run") with the clauses of API.           *)
EXTENDS API, Json, IOUtils

Log == ndJsonDeserialize(IOEnv.TRACE_FILE)
VARIABLES i, bad
tvars == <<i, bad>>

FailedOf(id, cl) ==
    LET F[j \in 0..Len(cl)] ==
          IF j = 0 THEN <<>>
          ELSE IF cl[j][2] THEN F[j - 1] ELSE Append(F[j - 1], <<id, cl[j][1]>>)
    IN F[Len(cl)]

Judge(e) ==
    CASE e.ev = "row" -> FailedOf(e.id, RowClauses(e))
      [] e.ev = "run" -> FailedOf(e.id, StatsClauses(e.rows, e.stats, e.ninputs))
      \* `synrbl run`: the statistics written to <output>.stats against the rows of the output file
      [] e.ev = "cli" -> FailedOf(e.id, StatsClauses(e.rows, e.stats, e.ninputs))
      [] OTHER -> << <<e.id, "UnknownEvent">> >>

TInit == i = 1 /\ bad = <<>> /\ TLCSet(1, <<>>)
TNext == /\ i <= Len(Log)
         /\ i' = i + 1
         /\ bad' = bad \o Judge(Log[i])
         /\ TLCSet(1, bad')
TSpec == TInit /\ [][TNext]_tvars
Post == JsonSerialize(IOEnv.VERDICT_FILE,
          [consumed |-> TLCGet("stats").diameter - 1, total |-> Len(Log), bad |-> TLCGet(1)])
=============================================================================
