------------------------------ MODULE CountCache ------------------------------
(***************************************************************************)
(* The per-component atom counter of CheckCarbonBalance                     *)
(* (check_carbon_balance.py:57-112), C07: "carbon counting per component    *)
(* with a cache". A checker object is created for one atom type and counts  *)
(* the atoms of that type in every dot-separated token of a reaction; counts *)
(* are memoised by token text. The memo is transparent exactly when every    *)
(* entry it serves was computed for the atom type being asked for: in the    *)
(* implementation the memo belongs to one object (Scope = "object"). A memo  *)
(* shared by all objects (Scope = "process") serves counts of one element as *)
(* counts of another.                                                        *)
(***************************************************************************)
EXTENDS Integers, Sequences, FiniteSets, TLC

CONSTANTS Tokens,      \* token texts
          Atoms,       \* atom types a checker can be created for
          Objs,        \* checker objects
          Scope,       \* "object" | "process"
          MaxCalls
ASSUME Scope \in {"object", "process"}

\* true number of atoms of type a in token t: a token is modelled as the bag it denotes
TrueCount(t, a) == IF a \in DOMAIN t THEN t[a] ELSE 0

VARIABLES atomOf,   \* object -> atom type, or "none" before creation
          memo,     \* memo owner -> (token -> count)
          last,     \* the last answer given: [obj, token, atom, answer]
          hist      \* call history (for replay into the implementation)
vars == <<atomOf, memo, last, hist>>

Owner(o) == IF Scope = "object" THEN o ELSE "process"
Owners == IF Scope = "object" THEN Objs ELSE {"process"}
NoAnswer == [obj |-> "none", token |-> "none", atom |-> "none", answer |-> 0, truth |-> 0]

Init == /\ atomOf = [o \in Objs |-> "none"]
        /\ memo = [w \in Owners |-> <<>>]
        /\ last = NoAnswer
        /\ hist = <<>>

\* CheckCarbonBalance(..., atom_type=a): a new object; with object scope it starts with an empty memo
Create(o, a) ==
    /\ atomOf[o] = "none"
    /\ atomOf' = [atomOf EXCEPT ![o] = a]
    /\ memo' = IF Scope = "object" THEN [memo EXCEPT ![o] = <<>>] ELSE memo
    /\ hist' = Append(hist, [op |-> "create", obj |-> o, atom |-> a, token |-> "none"])
    /\ UNCHANGED last

\* count_atoms(token, atom_type, memo)
Count(o, tk) ==
    /\ atomOf[o] # "none"
    /\ LET w == Owner(o)
           a == atomOf[o]
           hit == tk \in DOMAIN memo[w]
           ans == IF hit THEN memo[w][tk] ELSE TrueCount(Tokens[tk], a)
       IN /\ memo' = IF hit THEN memo
                     ELSE [memo EXCEPT ![w] = [k \in DOMAIN memo[w] \cup {tk} |-> IF k = tk THEN ans ELSE memo[w][k]]]
          /\ last' = [obj |-> o, token |-> tk, atom |-> a, answer |-> ans, truth |-> TrueCount(Tokens[tk], a)]
    /\ hist' = Append(hist, [op |-> "count", obj |-> o, atom |-> atomOf[o], token |-> tk])
    /\ UNCHANGED atomOf

Next == /\ Len(hist) < MaxCalls
        /\ \/ \E o \in Objs, a \in Atoms : Create(o, a)
           \/ \E o \in Objs, tk \in DOMAIN Tokens : Count(o, tk)
Spec == Init /\ [][Next]_vars

\* every answer is the true count for the atom type of the object that was asked
AnswersAreTrue == last.answer = last.truth
\* every memo entry is true for every object it can be served to
MemoSound == \A o \in Objs : atomOf[o] # "none" =>
               \A tk \in DOMAIN memo[Owner(o)] : memo[Owner(o)][tk] = TrueCount(Tokens[tk], atomOf[o])
=============================================================================
