------------------------------ MODULE CountCache ------------------------------
(***************************************************************************)
(* The per-component atom counter of CheckCarbonBalance                     *)
(* (check_carbon_balance.py:57-112), C07: "carbon counting per component    *)
(* with a cache". A checker object is created for one atom type and counts  *)
(* the atoms of that type in every dot-separated token of a reaction; counts *)
(* are memoised by token text. The memo is transparent exactly when every    *)
(* entry it serves was computed for the atom type being asked for: in the    *)
(* implementation the memo belongs to one object (Scope = "object"). A memo  *)
(* shared by all objects (Scope = "process") serves counts of one element as *)
(* counts of another.                                                        *)
(*                                                                           *)
(* The module carries Apalache type annotations: besides the bounded TLC     *)
(* runs (MC_CountCache) the invariant is shown inductive with Apalache for   *)
(* an ARBITRARY true-count function (MC_CountCacheInd), i.e. for call        *)
(* histories of any length.                                                  *)
(***************************************************************************)
EXTENDS Integers, Sequences, FiniteSets

CONSTANTS
    \* @type: Set(Str);
    TokenIds,    \* token texts
    \* @type: Set(Str);
    Atoms,       \* atom types a checker can be created for
    \* @type: Set(Str);
    Objs,        \* checker objects
    \* @type: Str;
    Scope,       \* "object" | "process"
    \* @type: <<Str, Str>> -> Int;
    TC           \* true number of atoms of a type in a token

VARIABLES
    \* @type: Str -> Str;
    atomOf,   \* object -> atom type, or "none" before creation
    \* @type: Str -> (Str -> Int);
    memo,     \* memo owner -> (token -> count), a partial function per owner
    \* @type: {obj: Str, token: Str, atom: Str, answer: Int, truth: Int};
    last,     \* the last answer given
    \* @type: Seq({op: Str, obj: Str, atom: Str, token: Str});
    hist      \* call history (for replay into the implementation); no action reads it
vars == <<atomOf, memo, last, hist>>

Owner(o) == IF Scope = "object" THEN o ELSE "process"
Owners == IF Scope = "object" THEN Objs ELSE {"process"}
NoAnswer == [obj |-> "none", token |-> "none", atom |-> "none", answer |-> 0, truth |-> 0]
\* @type: Str -> Int;
EmptyMemo == [x \in {} |-> 0]

Init == /\ atomOf = [o \in Objs |-> "none"]
        /\ memo = [w \in Owners |-> EmptyMemo]
        /\ last = NoAnswer
        /\ hist = <<>>

\* CheckCarbonBalance(..., atom_type=a): a new object; with object scope it starts with an empty memo
Create(o, a) ==
    /\ atomOf[o] = "none"
    /\ atomOf' = [atomOf EXCEPT ![o] = a]
    /\ memo' = IF Scope = "object" THEN [memo EXCEPT ![o] = EmptyMemo] ELSE memo
    /\ hist' = Append(hist, [op |-> "create", obj |-> o, atom |-> a, token |-> "none"])
    /\ UNCHANGED last

\* count_atoms(token, atom_type, memo)
Count(o, tk) ==
    /\ atomOf[o] # "none"
    /\ LET w == Owner(o)
           a == atomOf[o]
           hit == tk \in DOMAIN memo[w]
           ans == IF hit THEN memo[w][tk] ELSE TC[<<tk, a>>]
       IN /\ memo' = IF hit THEN memo
                     ELSE [memo EXCEPT ![w] = [k \in DOMAIN memo[w] \cup {tk} |-> IF k = tk THEN ans ELSE memo[w][k]]]
          /\ last' = [obj |-> o, token |-> tk, atom |-> a, answer |-> ans, truth |-> TC[<<tk, a>>]]
    /\ hist' = Append(hist, [op |-> "count", obj |-> o, atom |-> atomOf[o], token |-> tk])
    /\ UNCHANGED atomOf

Next == \/ \E o \in Objs, a \in Atoms : Create(o, a)
        \/ \E o \in Objs, tk \in TokenIds : Count(o, tk)
Spec == Init /\ [][Next]_vars

\* every answer is the true count for the atom type of the object that was asked
AnswersAreTrue == last.answer = last.truth
\* every memo entry is true for every object it can be served to
MemoSound == \A o \in Objs : atomOf[o] # "none" =>
               \A tk \in DOMAIN memo[Owner(o)] : memo[Owner(o)][tk] = TC[<<tk, atomOf[o]>>]
=============================================================================
