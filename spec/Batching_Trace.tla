---------------------------- MODULE Batching_Trace ----------------------------
(* C05: one result row per input row, in input order, for every input form.    *)
(* Events: "run" = one real rebalance() call (list / dict / csv / json source,  *)
(* some batch size) on a layout enumerated by TLC from Batching.tla; "cli" =    *)
(* one real `synrbl run --out-columns` execution.                               *)
EXTENDS Integers, Sequences, FiniteSets, TLC, Json, IOUtils

Log == ndJsonDeserialize(IOEnv.TRACE_FILE)
VARIABLES i, bad
tvars == <<i, bad>>

Count(seq, x) == Cardinality({j \in 1..Len(seq) : seq[j] = x})
SameBag(a, b) == Len(a) = Len(b) /\ \A j \in 1..Len(a) : Count(a, a[j]) = Count(b, a[j])
Fails(e, pos, clause, ok) == IF ok THEN <<>> ELSE << <<e.id, pos, clause>> >>

\* output row x describes input j of event e
Describes(e, j, x, arg) ==
    IF e.arg_facts[j].parses
    THEN x.echo_facts.parses /\ SameBag(x.echo_facts.l, e.arg_facts[j].l)
                             /\ SameBag(x.echo_facts.r, e.arg_facts[j].r)
    ELSE x.echo = arg \/ x.reaction = arg \/ x.echo = ""

JudgeRows(e, argOf(_), extra(_, _)) ==
    LET n == IF Len(e.rows) < e.ninputs THEN Len(e.rows) ELSE e.ninputs
        F[j \in 0..n] ==
          IF j = 0 THEN <<>>
          ELSE F[j - 1]
               \o Fails(e, j, "RowDescribesItsInput", Describes(e, j, e.rows[j], argOf(j)))
               \o Fails(e, j, "MalformedRowNotSolved", ~e.arg_facts[j].parses => ~e.rows[j].solved)
               \o Fails(e, j, "PassThroughAligned", extra(j, e.rows[j]))
    IN F[n]

JudgeRun(e) ==
       Fails(e, 0, "CallDoesNotRaise", e.raised = "")
    \o Fails(e, 0, "OneRowPerInput", e.nrows = e.ninputs)
    \o Fails(e, 0, "ReactionCountIsInputCount",
             e.ninputs > 0 => ("reaction_cnt" \in DOMAIN e.stats /\ e.stats["reaction_cnt"] = e.ninputs))
    \o JudgeRows(e, LAMBDA j : e.args[j], LAMBDA j, x : TRUE)
    \* the default output form (list of reaction strings) is the reaction column of the row form
    \o Fails(e, 0, "PlainOutputMatchesRows",
             e.plain_used => (Len(e.plain) = Len(e.rows) /\ \A j \in 1..Len(e.rows) : e.plain[j] = e.rows[j].reaction))

JudgeCli(e) ==
       Fails(e, 0, "CallDoesNotRaise", e.raised = "")
    \o Fails(e, 0, "OneRowPerInput", e.nrows = e.ninputs)
    \o Fails(e, 0, "ReactionCountIsInputCount",
             e.ninputs > 0 => ("reaction_cnt" \in DOMAIN e.stats /\ e.stats["reaction_cnt"] = e.ninputs))
    \o JudgeRows(e, LAMBDA j : e.inputs[j].arg,
                 LAMBDA j, x : x.rid = e.inputs[j].rid /\ x.note = e.inputs[j].note)

Judge(e) == CASE e.ev = "run" -> JudgeRun(e)
              [] e.ev = "cli" -> JudgeCli(e)
              [] e.ev = "row" -> <<>>
              [] OTHER -> << <<e.id, 0, "UnknownEvent">> >>

TInit == i = 1 /\ bad = <<>> /\ TLCSet(1, <<>>)
TNext == /\ i <= Len(Log)
         /\ i' = i + 1
         /\ bad' = bad \o Judge(Log[i])
         /\ TLCSet(1, bad')
TSpec == TInit /\ [][TNext]_tvars
Post == JsonSerialize(IOEnv.VERDICT_FILE,
          [consumed |-> TLCGet("stats").diameter - 1, total |-> Len(Log), bad |-> TLCGet(1)])
=============================================================================
