--------------------------- MODULE CountCache_Trace ---------------------------
(* C07, spec -> code: every call history of MC_CountCache (objects created for  *)
(* an atom type, tokens counted through them in every order) replayed through   *)
(* real CheckCarbonBalance objects in one process. An event is one count call:  *)
(* the number the object's counter returned, the label the public method gave   *)
(* to "token >> reference mixture with the true count", and the RDKit oracle's  *)
(* count. The history restarts (fresh process state is NOT assumed: objects of  *)
(* earlier histories stay alive, as they would in a long-running service).      *)
EXTENDS MC_CountCache, Json, IOUtils

Log == ndJsonDeserialize(IOEnv.TRACE_FILE)
VARIABLES i, bad
tvars == <<i, bad, vars>>
Fails(e, clause, ok) == IF ok THEN <<>> ELSE << <<e.id, clause>> >>

Judge(e) ==
    CASE e.ev = "count" ->
            Fails(e, "CountIsTrue", e.answer = e.truth)
         \o Fails(e, "LabelAgrees", e.label = "balanced")
         \o Fails(e, "HARNESS_ModelTokenMatchesOracle",
                  (e.token \in DOMAIN MCTokens /\ e.atom \in {"C", "O"}) => e.truth = MCTrue[<<e.token, e.atom>>])
      [] OTHER -> << <<e.id, "UnknownEvent">> >>

TInit == Init /\ i = 1 /\ bad = <<>> /\ TLCSet(1, <<>>)
TNext == /\ i <= Len(Log)
         /\ i' = i + 1
         /\ bad' = bad \o Judge(Log[i])
         /\ TLCSet(1, bad')
         /\ UNCHANGED vars
TSpec == TInit /\ [][TNext]_tvars
Post == JsonSerialize(IOEnv.VERDICT_FILE,
          [consumed |-> TLCGet("stats").diameter - 1, total |-> Len(Log), bad |-> TLCGet(1)])
=============================================================================
