------------------------------ MODULE MCSSelect ------------------------------
(***************************************************************************)
(* ExtractMCS.get_largest_condition (extract_common_mcs.py:163-234), C10.  *)
(* A condition is a sequence of entries, one per searched reaction, in the *)
(* same order for every condition; an entry is a record                     *)
(*   [id, tot, first]   tot   = total atoms over its patterns               *)
(*                      first = atoms of its first pattern (0 if none)      *)
(* The function returns, position by position, the entry with the largest  *)
(* total; ties are broken by the size of the first pattern (strictly        *)
(* larger wins, first such condition); a position where nothing wins is     *)
(* skipped. Positions beyond the shortest condition are ignored.            *)
(***************************************************************************)
EXTENDS Integers, Sequences, FiniteSets, TLC

MinLen(conds) == LET ls == {Len(conds[c]) : c \in 1..Len(conds)} IN
                 CHOOSE m \in ls : \A x \in ls : m <= x

\* first pass: running maximum with strict >, ties collected in condition order
RECURSIVE Pass1(_, _, _, _, _)
Pass1(conds, idx, c, maxAtoms, tied) ==
    IF c > Len(conds) THEN tied
    ELSE LET t == conds[c][idx].tot IN
         IF t > maxAtoms THEN Pass1(conds, idx, c + 1, t, <<c>>)
         ELSE IF t = maxAtoms THEN Pass1(conds, idx, c + 1, maxAtoms, Append(tied, c))
         ELSE Pass1(conds, idx, c + 1, maxAtoms, tied)

\* second pass over the tied conditions: strictly larger first pattern wins
RECURSIVE Pass2(_, _, _, _, _, _)
Pass2(conds, idx, tied, k, best, win) ==
    IF k > Len(tied) THEN win
    ELSE LET f == conds[tied[k]][idx].first IN
         IF f > best THEN Pass2(conds, idx, tied, k + 1, f, tied[k])
         ELSE Pass2(conds, idx, tied, k + 1, best, win)

\* winning condition at a position, 0 = nothing selected
WinnerAt(conds, idx) ==
    LET tied == Pass1(conds, idx, 1, 0, <<>>) IN
    IF Len(tied) > 1 THEN Pass2(conds, idx, tied, 1, 0, 0)
    ELSE IF Len(tied) = 1 THEN tied[1] ELSE 0

RECURSIVE SelectFrom(_, _)
SelectFrom(conds, idx) ==
    IF idx > MinLen(conds) THEN <<>>
    ELSE LET w == WinnerAt(conds, idx) IN
         (IF w = 0 THEN <<>> ELSE << [cond |-> w, pos |-> idx] >>) \o SelectFrom(conds, idx + 1)

Select(conds) == IF Len(conds) = 0 THEN <<>> ELSE SelectFrom(conds, 1)

(* what the property asks of a selection sel (sequence of [cond, pos]) *)
MaxTot(conds, idx) == LET ts == {conds[c][idx].tot : c \in 1..Len(conds)} IN
                      CHOOSE m \in ts : \A x \in ts : m >= x
LargestRetained(conds, sel) ==
    \A k \in 1..Len(sel) : conds[sel[k].cond][sel[k].pos].tot = MaxTot(conds, sel[k].pos)
NothingEmptyRetained(conds, sel) ==
    \A k \in 1..Len(sel) : conds[sel[k].cond][sel[k].pos].tot > 0
InOrderNoRepeats(sel) == \A a, b \in 1..Len(sel) : a < b => sel[a].pos < sel[b].pos
\* results of different reactions are never mixed up: the entry retained at a
\* position carries the id every condition reports for that position
SameReaction(conds, sel) ==
    \A k \in 1..Len(sel) : \A c \in 1..Len(conds) :
        conds[c][sel[k].pos].id = conds[sel[k].cond][sel[k].pos].id
\* a reaction with a unique best non-empty result is never dropped
UniqueBestKept(conds, sel) ==
    \A idx \in 1..MinLen(conds) :
        (MaxTot(conds, idx) > 0 /\ Cardinality({c \in 1..Len(conds) : conds[c][idx].tot = MaxTot(conds, idx)}) = 1)
           => \E k \in 1..Len(sel) : sel[k].pos = idx
=============================================================================
