------------------------------ MODULE Batching ------------------------------
(***************************************************************************)
(* Balancer.rebalance around the pipeline (balancing.py:280-314), the      *)
(* DataLoader iteration protocol (SynUtils/batching.py:59-80), the         *)
(* per-batch try/except, statistics merging and the CLI's positional zip   *)
(* of input rows with output rows (SynCmd/cmd_run.py:120-122). C05, C18.   *)
(*                                                                         *)
(* An input row is a record [origin, kind]; kinds:                         *)
(*   "ok"          valid reaction                                           *)
(*   "unparsable"  exactly one '>>' but a side RDKit cannot parse           *)
(*   "nosep"       not exactly one '>>' ('CCO', '', 'A>B>C'), missing value *)
(* Switches (TRUE = intended behaviour):                                    *)
(*   KeepMalformedRows  a malformed row still yields a (declined) row       *)
(*   ParseGuard         a row without exactly one '>>' does not raise       *)
(***************************************************************************)
EXTENDS Integers, Sequences, FiniteSets, TLC

CONSTANTS KeepMalformedRows, ParseGuard, MaxLen, BatchSizes, Kinds

NoBatching == 0     \* batch_size=None

VARIABLES inputs, bs, pos, stopped, batch, results, stats, lost, pc
vars == <<inputs, bs, pos, stopped, batch, results, stats, lost, pc>>

InputSeqs == UNION {[1..n -> Kinds] : n \in 0..MaxLen}

Init == /\ inputs \in InputSeqs
        /\ bs \in BatchSizes
        /\ pos = 0 /\ stopped = FALSE /\ batch = <<>> /\ results = <<>>
        /\ stats = [reaction_cnt |-> 0, set |-> FALSE]
        /\ lost = 0
        /\ pc = "next"

Row(j) == [origin |-> j, kind |-> inputs[j]]

(* DataLoader.__next__ : up to bs items; StopIteration inside the loop ends  *)
(* the batch early and marks the loader stopped; the call after that raises. *)
NextBatch ==
    /\ pc = "next"
    /\ IF bs = NoBatching
       THEN IF pos = 0 /\ ~stopped
            THEN /\ batch' = [j \in 1..Len(inputs) |-> Row(j)]
                 /\ pos' = Len(inputs) /\ stopped' = TRUE /\ pc' = "run"
            ELSE /\ pc' = "done" /\ UNCHANGED <<batch, pos, stopped>>
       ELSE IF stopped
            THEN /\ pc' = "done" /\ UNCHANGED <<batch, pos, stopped>>
            ELSE LET n == IF Len(inputs) - pos >= bs THEN bs ELSE Len(inputs) - pos
                 IN /\ batch' = [j \in 1..n |-> Row(pos + j)]
                    /\ pos' = pos + n
                    /\ stopped' = (n < bs)
                    /\ pc' = "run"
    /\ UNCHANGED <<inputs, bs, results, stats, lost>>

Malformed(k) == k \in {"unparsable", "nosep"}

(* __rebalance_batch + __run_pipeline on one batch *)
RunBatch ==
    /\ pc = "run"
    /\ IF Len(batch) = 0
       THEN UNCHANGED <<results, stats, lost>>                       \* `continue`
       ELSE IF ~ParseGuard /\ \E j \in 1..Len(batch) : batch[j].kind = "nosep"
            THEN \* can_parse raises, the exception is swallowed, the batch is gone
                 /\ lost' = lost + 1 /\ UNCHANGED <<results, stats>>
            ELSE LET kept == IF KeepMalformedRows THEN batch
                             ELSE SelectSeq(batch, LAMBDA r : ~Malformed(r.kind))
                 IN /\ results' = results \o kept
                    /\ stats' = [reaction_cnt |-> stats.reaction_cnt + Len(batch), set |-> TRUE]
                    /\ UNCHANGED lost
    /\ pc' = "next"
    /\ UNCHANGED <<inputs, bs, pos, stopped, batch>>

Next == NextBatch \/ RunBatch
Spec == Init /\ [][Next]_vars

Done == pc = "done"
OneRowPerInput == Done => Len(results) = Len(inputs)
InOrder == Done => \A j \in 1..Len(results) : j <= Len(inputs) => results[j].origin = j
\* the CLI copies pass-through column c of input row j next to output row j
CliPassThroughAligned == Done => \A j \in 1..Len(results) : j <= Len(inputs) => results[j].origin = j
ReactionCountIsInputCount == Done /\ Len(inputs) > 0 => stats.reaction_cnt = Len(inputs)
NothingLost == Done => lost = 0
EveryInputConsumedOnce == Done => pos = Len(inputs)
=============================================================================
