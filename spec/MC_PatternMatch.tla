--------------------------- MODULE MC_PatternMatch ---------------------------
(* Molecule builder: a molecule grows one atom at a time (AddAtom attaches a new *)
(* atom to an existing one) and may close one ring (CloseRing); valences are      *)
(* respected. In every reachable state, for every anchor atom and every pattern   *)
(* of the table: algorithm = declarative meaning, and the algorithm's answer is   *)
(* the same for every renumbering of the atoms.                                   *)
EXTENDS PatternMatch

CONSTANTS MaxAtoms, Elements, AllowRing, CheckRenumbering

Valence(s) == CASE s = "C" -> 4 [] s = "N" -> 3 [] s = "O" -> 2 [] s = "S" -> 2 [] OTHER -> 1

\* patterns as graphs: G(labels, bonds) with bonds a set of <<i, j, type>>
G(labs, bonds) ==
    [n |-> Len(labs), lab |-> labs,
     bt |-> [i \in 1..Len(labs) |-> [j \in 1..Len(labs) |->
               IF \E b \in bonds : (b[1] = i /\ b[2] = j) \/ (b[1] = j /\ b[2] = i)
               THEN (CHOOSE b \in bonds : (b[1] = i /\ b[2] = j) \/ (b[1] = j /\ b[2] = i))[3] ELSE 0]]]

Patterns == <<
    G(<<"C", "O">>, {<<1, 2, 1>>}),                                        \* CO
    G(<<"C", "O">>, {<<1, 2, 2>>}),                                        \* C=O
    G(<<"C", "N">>, {<<1, 2, 1>>}),                                        \* CN
    G(<<"C", "N">>, {<<1, 2, 3>>}),                                        \* C#N
    G(<<"N", "O">>, {<<1, 2, 1>>}),                                        \* NO
    G(<<"N", "O">>, {<<1, 2, 2>>}),                                        \* N=O
    G(<<"C", "O", "C">>, {<<1, 2, 1>>, <<2, 3, 1>>}),                      \* COC
    G(<<"C", "S", "C">>, {<<1, 2, 1>>, <<2, 3, 1>>}),                      \* CSC
    G(<<"O", "C", "O">>, {<<1, 2, 1>>, <<2, 3, 1>>}),                      \* OCO
    G(<<"C", "C", "O">>, {<<1, 2, 2>>, <<2, 3, 1>>}),                      \* C=CO
    G(<<"C", "C", "O">>, {<<1, 2, 1>>, <<2, 3, 2>>}),                      \* CC=O
    G(<<"N", "C", "O">>, {<<1, 2, 1>>, <<2, 3, 2>>}),                      \* NC=O
    G(<<"O", "C", "S">>, {<<1, 2, 2>>, <<2, 3, 1>>}),                      \* O=CS
    G(<<"O", "C", "S">>, {<<1, 2, 1>>, <<2, 3, 2>>}),                      \* OC=S
    G(<<"O", "N", "O">>, {<<1, 2, 2>>, <<2, 3, 1>>}),                      \* O=NO
    G(<<"O", "C", "N">>, {<<1, 2, 1>>, <<2, 3, 1>>}),                      \* OCN
    G(<<"O", "C", "O">>, {<<1, 2, 1>>, <<2, 3, 2>>}),                      \* OC=O
    G(<<"C", "C", "O", "O">>, {<<1, 2, 1>>, <<2, 3, 2>>, <<2, 4, 1>>}),    \* CC(=O)O
    G(<<"C", "C", "C", "O">>, {<<1, 2, 1>>, <<2, 3, 1>>, <<2, 4, 2>>}),    \* CC(C)=O
    G(<<"O", "C", "O", "O">>, {<<1, 2, 2>>, <<2, 3, 1>>, <<2, 4, 1>>}),    \* O=C(O)O
    G(<<"N", "C", "O", "O">>, {<<1, 2, 1>>, <<2, 3, 2>>, <<2, 4, 1>>}),    \* NC(=O)O
    G(<<"O", "C", "O", "C">>, {<<1, 2, 1>>, <<2, 3, 1>>, <<3, 4, 1>>}),    \* OCOC
    G(<<"C", "O", "C", "O">>, {<<1, 2, 1>>, <<2, 3, 1>>, <<3, 4, 1>>}),    \* COCO
    G(<<"C", "O", "C", "O", "C">>, {<<1, 2, 1>>, <<2, 3, 1>>, <<3, 4, 1>>, <<4, 5, 1>>}),              \* COCOC
    G(<<"C", "O", "C", "C", "O">>, {<<1, 2, 1>>, <<2, 3, 1>>, <<3, 4, 1>>, <<3, 5, 2>>})               \* COC(C)=O
>>

VARIABLES mol, ring
vars == <<mol, ring>>

Used(g, i) == LET S == Nbrs(g, i) IN
              IF S = {} THEN 0
              ELSE LET RECURSIVE Sum(_)
                       Sum(T) == IF T = {} THEN 0 ELSE LET x == CHOOSE x \in T : TRUE IN g.bt[i][x] + Sum(T \ {x})
                   IN Sum(S)

Init == /\ \E s \in Elements : mol = [n |-> 1, lab |-> <<s>>, bt |-> <<<<0>>>>]
        /\ ring = FALSE

AddAtom ==
    /\ mol.n < MaxAtoms
    /\ \E s \in Elements, at \in 1..mol.n, t \in 1..3 :
         /\ Used(mol, at) + t <= Valence(mol.lab[at])
         /\ t <= Valence(s)
         /\ mol' = [n |-> mol.n + 1, lab |-> Append(mol.lab, s),
                    bt |-> [i \in 1..(mol.n + 1) |-> [j \in 1..(mol.n + 1) |->
                             IF i <= mol.n /\ j <= mol.n THEN mol.bt[i][j]
                             ELSE IF (i = at /\ j = mol.n + 1) \/ (j = at /\ i = mol.n + 1) THEN t ELSE 0]]]
    /\ UNCHANGED ring

CloseRing ==
    /\ AllowRing /\ ~ring /\ mol.n >= 3
    /\ \E i, j \in 1..mol.n :
         /\ i < j /\ mol.bt[i][j] = 0
         /\ Used(mol, i) + 1 <= Valence(mol.lab[i]) /\ Used(mol, j) + 1 <= Valence(mol.lab[j])
         /\ mol' = [mol EXCEPT !.bt = [a \in 1..mol.n |-> [b \in 1..mol.n |->
                             IF (a = i /\ b = j) \/ (a = j /\ b = i) THEN 1 ELSE mol.bt[a][b]]]]
    /\ ring' = TRUE

Next == AddAtom \/ CloseRing
Spec == Init /\ [][Next]_vars

Complete == \A k \in 1..Len(Patterns), a \in 1..mol.n :
               Occurs(mol, a, Patterns[k]) => FitsAlgo(mol, a, Patterns[k])
Sound == \A k \in 1..Len(Patterns), a \in 1..mol.n :
               FitsAlgo(mol, a, Patterns[k]) => Occurs(mol, a, Patterns[k])
\* on ring-free molecules the search is exact; with a ring the two branches that leave an atom
\* may meet again unnoticed (1,3-dioxetane "contains" COCOC) - the documented deviation
SoundOnTrees == ~ring => Sound
RenumberingInvariant ==
    CheckRenumbering =>
      \A k \in 1..Len(Patterns), a \in 1..mol.n, pi \in Perms(mol.n) :
          FitsAlgo(Renumber(mol, pi), pi[a], Patterns[k]) = FitsAlgo(mol, a, Patterns[k])
=============================================================================
