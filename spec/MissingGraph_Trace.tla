-------------------------- MODULE MissingGraph_Trace --------------------------
(* Conformance of FindMissingGraphs.find_missing_parts_pairs with MissingGraph:  *)
(* "missing" events are the cases enumerated by TLC from MC_MissingGraph sent     *)
(* through the real function (its output logged as a graph); "missing_big" are    *)
(* corpus molecules with a real rdFMCS pattern, judged by the clauses that need   *)
(* no search over embeddings.                                                     *)
EXTENDS MissingGraph, Json, IOUtils

Log == ndJsonDeserialize(IOEnv.TRACE_FILE)
VARIABLES i, bad
tvars == <<i, bad>>
Fails(e, clause, ok) == IF ok THEN <<>> ELSE << <<e.id, clause>> >>

ToG(x) == [lab |-> x.lab, edges |-> {{x.edges[k][1], x.edges[k][2]} : k \in 1..Len(x.edges)}]
ToOut(x) == [none |-> x.none, lab |-> x.lab,
             edges |-> {{x.edges[k][1], x.edges[k][2]} : k \in 1..Len(x.edges)},
             pairs |-> {<<x.pairs[k][1], x.pairs[k][2]>> : k \in 1..Len(x.pairs)}]
Cnt(d, k) == IF k \in DOMAIN d THEN d[k] ELSE 0

JudgeCase(e) ==
    LET g == ToG(e.g)
        p == ToG(e.p)
        out == ToOut(e.out)
        ok == e.raised = "" /\ e.lens = <<1, 1, 1>>
    IN   Fails(e, "CallReturnsOneEntryPerMolecule", ok)
      \o (IF ok THEN
               Fails(e, "PairListsAligned", e.out.nb = e.out.nn)
            \o Fails(e, "SymbolsAgree", e.out.syms_ok)
            \o Fails(e, "NoRepeatedPair", Cardinality(out.pairs) = Len(e.out.pairs))
            \o Fails(e, "ExplainedBySomeEmbedding", Explained(g, p, out))
            \o Fails(e, "UsesPreferredEmbedding", Explained(g, p, out) => ExplainedPreferred(g, p, out))
          ELSE <<>>)

JudgeBig(e) ==
    LET ok == e.raised = "" /\ e.lens = <<1, 1, 1>>
        keys == DOMAIN e.mol_counts \cup DOMAIN e.out_counts \cup DOMAIN e.pattern_counts
    IN   Fails(e, IF e.ring_cut THEN "RingCut_CallReturnsOneEntryPerMolecule" ELSE "CallReturnsOneEntryPerMolecule", ok)
      \o (IF ok /\ ~e.wild /\ e.ring_cut THEN
               \* a pattern that takes part of an aromatic ring: the rest cannot be sanitised; recorded separately
               Fails(e, "RingCut_AtomsConserved",
                     \A k \in keys : Cnt(e.mol_counts, k) = Cnt(e.out_counts, k) + Cnt(e.pattern_counts, k))
            \o Fails(e, "RingCut_PairListsAligned", e.nb = e.nn)
          ELSE IF ok /\ ~e.wild THEN
               Fails(e, "AtomsConserved",
                     \A k \in keys : Cnt(e.mol_counts, k) = Cnt(e.out_counts, k) + Cnt(e.pattern_counts, k))
            \o Fails(e, "PairListsAligned", e.nb = e.nn)
            \o Fails(e, "SymbolsAgree", e.syms_ok)
            \o Fails(e, "EveryFragmentAttached", e.npairs >= e.nfrag)
          ELSE <<>>)

Judge(e) == CASE e.ev = "missing" -> JudgeCase(e)
              [] e.ev = "missing_big" -> JudgeBig(e)
              [] OTHER -> << <<e.id, "UnknownEvent">> >>
TInit == i = 1 /\ bad = <<>> /\ TLCSet(1, <<>>)
TNext == /\ i <= Len(Log)
         /\ i' = i + 1
         /\ bad' = bad \o Judge(Log[i])
         /\ TLCSet(1, bad')
TSpec == TInit /\ [][TNext]_tvars
Post == JsonSerialize(IOEnv.VERDICT_FILE,
          [consumed |-> TLCGet("stats").diameter - 1, total |-> Len(Log), bad |-> TLCGet(1)])
=============================================================================
