CONSTANTS
  Labels = {"C", "O", "N"}
  MaxN = 5
  Mutation = "none"
SPECIFICATION Spec
INVARIANT InvReassembles
INVARIANT InvConserves
INVARIANT InvAttached
CHECK_DEADLOCK FALSE
