------------------------------ MODULE MC_RuleDB ------------------------------
(* Every operation sequence up to MaxOps over a small alphabet, from empty,  *)
(* from a consistent seed and from an inconsistent seed. The history is part *)
(* of the state so that every reachable state is one behaviour that the      *)
(* harness replays into the real RuleImputeManager.                          *)
EXTENDS RuleDB, TLC

CONSTANTS MaxOps, Mutation

E(f, s, v) == [formula |-> f, smiles |-> s, valid |-> v]
Water   == E("H2O", "O", TRUE)
Ammon   == E("NH4+", "[NH4+]", TRUE)
Water2  == E("H2O", "[OH2]", TRUE)        \* same formula, other SMILES
Water3  == E("Water", "O", TRUE)          \* same SMILES, other formula
Broken  == E("Bad", "C(C", FALSE)         \* invalid SMILES
HCl     == E("HCl", "Cl", TRUE)
Chlor   == E("Cl-", "[Cl-]", TRUE)
Entries == {Water, Ammon, Water2, Water3, Broken, HCl, Chlor}
Bulks   == { <<Water, Broken, HCl>>, <<HCl, HCl>>, <<Water2, Ammon>>, <<Chlor, Water3, Water>> }
Removals == {"H2O", "HCl", "Nope", "Cl2"}

SeedOk  == <<Key(HCl), Key(Ammon)>>
SeedDup == << [formula |-> "Cl2", smiles |-> "ClCl"], [formula |-> "Cl2", smiles |-> "ClCl"],
              [formula |-> "N", smiles |-> "N"], [formula |-> "H2O", smiles |-> "O"] >>

VARIABLES db, hist
vars == <<db, hist>>

Init == /\ db \in {<<>>, SeedOk, SeedDup}
        /\ hist = << [op |-> "init", after |-> db] >>

\* deliberately wrong variant for Neg_RuleDB.cfg: the SMILES duplicate test is dropped
AddNoSmilesTest(d, e) == IF ~HasFormula(d, e.formula) /\ e.valid THEN Append(d, Key(e)) ELSE d
Add(e) == /\ db' = IF Mutation = "nosmiles" THEN AddNoSmilesTest(db, e) ELSE AddResult(db, e, e.valid)
          /\ hist' = Append(hist, [op |-> "add", formula |-> e.formula, smiles |-> e.smiles,
                                   raised |-> ~CanAdd(db, e, e.valid), after |-> db'])
AddBulk(es) == LET res == AddAll(db, es) IN
          /\ db' = res[1]
          /\ hist' = Append(hist, [op |-> "bulk", entries |-> [j \in 1..Len(es) |-> Key(es[j])],
                                   rejected |-> res[2], after |-> db'])
Remove(f) == /\ db' = RemoveResult(db, f)
             /\ hist' = Append(hist, [op |-> "remove", formula |-> f, after |-> db'])

Next == /\ Len(hist) <= MaxOps
        /\ \/ \E e \in Entries : Add(e)
           \/ \E es \in Bulks : AddBulk(es)
           \/ \E f \in Removals : Remove(f)
Spec == Init /\ [][Next]_vars

StartedConsistent == Consistent(hist[1].after)
InvConsistent == StartedConsistent => Consistent(db)
NeverMoreClashes == [][Clashes(db') <= Clashes(db)]_vars
OthersUndisturbed ==
    [][ \/ IsPrefixOf(db, db')                 \* additions only append
        \/ RemovedOne(db, db') ]_vars           \* a removal deletes one entry
RemoveRemovesNamed ==
    [][ Len(db') < Len(db) =>
          /\ hist'[Len(hist')].op = "remove"
          /\ \E j \in 1..Len(db) : db[j].formula = hist'[Len(hist')].formula
                                   /\ db' = SubSeq(db, 1, j - 1) \o SubSeq(db, j + 1, Len(db)) ]_vars
RejectedUnchanged ==
    [][ (hist'[Len(hist')].op = "add" /\ hist'[Len(hist')].raised) => db' = db ]_vars
=============================================================================
