CONSTANTS
  Syms = {"C", "N", "O", "S", "P", "Cl"}
  FgNames = {"ether", "ester", "amid", "keton"}
SPECIFICATION Spec
INVARIANT AlwaysAMergeRule
INVARIANT CompletionWellFormed
INVARIANT ExpansionsCarbonFree
INVARIANT RoundTripExceptions
INVARIANT RestrictionOnlyHetero
CHECK_DEADLOCK FALSE
