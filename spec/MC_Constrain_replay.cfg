CONSTANTS
  AllowMarkerPrefixedInputs = TRUE
  MaxInput = 2
  MaxAdded = 3
SPECIFICATION Spec
CHECK_DEADLOCK FALSE
