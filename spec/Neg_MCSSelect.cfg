CONSTANTS
  NC = 3
  NP = 2
  MaxT = 2
  Mutation = "ties"
SPECIFICATION Spec
INVARIANT InvLargest
INVARIANT InvNonEmpty
INVARIANT InvOrder
INVARIANT InvSameReaction
INVARIANT InvUniqueBestKept
CHECK_DEADLOCK FALSE
