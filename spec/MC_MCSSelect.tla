---------------------------- MODULE MC_MCSSelect ----------------------------
(* Every table of NC conditions x up to NP reactions with totals and first-    *)
(* pattern sizes in 0..MaxT (first <= tot), lists of unequal length included.  *)
EXTENDS MCSSelect
CONSTANTS NC, NP, MaxT, Mutation

Entry(p) == {[id |-> p, tot |-> t, first |-> f] : t \in 0..MaxT, f \in 0..MaxT} 
Entries(p) == {e \in Entry(p) : e.first <= e.tot}
CondSeqs == UNION { {s \in [1..n -> UNION {Entries(p) : p \in 1..NP}] : \A j \in 1..n : s[j].id = j} : n \in 1..NP }

VARIABLES table, sel
vars == <<table, sel>>

\* deliberately wrong variant: ties resolved by >= (a later, smaller first pattern wins)
RECURSIVE Pass2M(_, _, _, _, _, _)
Pass2M(conds, idx, tied, k, best, win) ==
    IF k > Len(tied) THEN win
    ELSE LET f == conds[tied[k]][idx].first IN
         IF f >= best THEN Pass2M(conds, idx, tied, k + 1, f, tied[k])
         ELSE Pass2M(conds, idx, tied, k + 1, best, win)
\* mutant: the first pass uses >= for the running maximum but forgets to reset the ties
RECURSIVE Pass1M(_, _, _, _, _)
Pass1M(conds, idx, c, maxAtoms, tied) ==
    IF c > Len(conds) THEN tied
    ELSE LET t == conds[c][idx].tot IN
         IF t >= maxAtoms THEN Pass1M(conds, idx, c + 1, t, Append(tied, c))
         ELSE Pass1M(conds, idx, c + 1, maxAtoms, tied)
WinnerM(conds, idx) ==
    LET tied == Pass1M(conds, idx, 1, 0, <<>>) IN
    IF Len(tied) > 1 THEN Pass2(conds, idx, tied, 1, 0, 0)
    ELSE IF Len(tied) = 1 THEN tied[1] ELSE 0
RECURSIVE SelectM(_, _)
SelectM(conds, idx) ==
    IF idx > MinLen(conds) THEN <<>>
    ELSE LET w == WinnerM(conds, idx) IN
         (IF w = 0 THEN <<>> ELSE << [cond |-> w, pos |-> idx] >>) \o SelectM(conds, idx + 1)

Init == /\ table \in [1..NC -> CondSeqs]
        /\ sel = IF Mutation = "ties" THEN SelectM(table, 1) ELSE Select(table)
Next == UNCHANGED vars
Spec == Init /\ [][Next]_vars

InvLargest == LargestRetained(table, sel)
InvNonEmpty == NothingEmptyRetained(table, sel)
InvOrder == InOrderNoRepeats(sel)
InvSameReaction == SameReaction(table, sel)
InvUniqueBestKept == UniqueBestKept(table, sel)
=============================================================================
