"""C17 driver: normalize_smiles / wc_similarity / benchmark on families of
equivalent spellings."""
import argparse
import json
import logging
import math
import os
import random
import sys

import pandas as pd
from rdkit import Chem

from harness import oracle, common, corpus, gen
from synrbl.SynUtils.chem_utils import normalize_smiles, wc_similarity

METHODS = ["pathway", "ecfp", "ecfp_inv"]
ANAGRAM = ["CCCO.CCOC>>CCCOCCOC", "CCOC.CCCO>>CCCOCCOC", "CCN.CNC>>CCNCNC", "CNC.CCN.O>>CCNCNC.O", "CCCCO.CCOCC.CCCOC>>CCCCOCC",
           "CC(C)O.CCCO>>CC(C)OCCC.O", "OCCN.NCCO>>OCCNCCN.O", "CCCO.CCOC.COCC>>CCCOC", "c1ccccc1O.Oc1ccccc1>>c1ccccc1Oc1ccccc1.O",
           "CCS.CSC>>CCSSC", "[2H]O[2H].CC(=O)Cl>>CC(=O)O[2H].[2H]Cl", "[13CH3]O.Cl>>[13CH3]Cl.O", "[2H]C([2H])([2H])O.CC(=O)O>>CC(=O)OC([2H])([2H])[2H].O",
           "[3H]c1ccccc1.BrBr>>[3H]c1ccc(Br)cc1.Br", "C[13C](=O)O.CO>>C[13C](=O)OC.O", "[2H]Cl.C=C>>[2H]CCCl", "[15NH3].CC(=O)Cl>>CC(=O)[15NH2].Cl",
           "[18OH2].CC(=O)OC>>CC(=O)[18OH].CO", "ClCCBr.BrCCCl>>ClCCCCBr.ClBr", "CC=O.C=CO>>CC(O)CC=O", "NCC=O.O=CCN>>NCC(O)C(N)C=O",
           # coordination compounds: dative bonds are written '->' / '<-', their '>' is not a reaction arrow
           "[NH3]->[Pt](<-[NH3])(Cl)Cl.OC(=O)C(=O)O>>[NH3]->[Pt]1(<-[NH3])OC(=O)C(=O)O1.Cl.Cl",
           "Cl[Pd]Cl.CC#N.CC#N>>CC#N->[Pd](Cl)(Cl)<-N#CC", "c1ccncc1.Cl[Cu]>>c1ccn(->[Cu]Cl)cc1",
           "[Pt](Cl)(Cl)(<-[NH3])<-[NH3]>>[Pt](Cl)(Cl)(<-[NH3])<-[NH3]",
           # the same molecules with other multiplicities (one equivalent / two equivalents), one after the other
           "ClC(Cl)=O.CCO>>CCOC(=O)OCC.Cl", "ClC(Cl)=O.CCO.CCO>>CCOC(=O)OCC.Cl.Cl", "CC=O.CC=O.CC=O>>CC1OC(C)OC(C)O1",
           "CC=O>>CC1OC(C)OC(C)O1", "CC=O.CC=O>>CC(O)CC=O", "OCCO.CC(=O)O.CC(=O)O>>CC(=O)OCCOC(C)=O.O.O",
           "OCCO.CC(=O)O>>CC(=O)OCCOC(C)=O.O"]


def stereo_free(s):
    return not any(ch in s for ch in "@/\\")


def variant(rsmi, rng, mode):
    sides = []
    for side in rsmi.split(">>"):
        toks = side.split(".") if side else []
        toks = list(toks)
        rng.shuffle(toks)
        new = []
        for t in toks:
            m = oracle.parse(t)
            if m is None:
                new.append(t)
                continue
            if mode == "random":
                new.append(Chem.MolToSmiles(m, doRandom=True, canonical=False))
            elif mode == "kekule":
                mk = Chem.Mol(m)
                try:
                    Chem.Kekulize(mk, clearAromaticFlags=True)
                    new.append(Chem.MolToSmiles(mk, kekuleSmiles=True))
                except Exception:
                    new.append(Chem.MolToSmiles(m))
            elif mode == "mapped":
                new.append(gen.add_maps(t, rng, start=rng.randint(1, 40))[0])
            else:
                new.append(t)
        sides.append(".".join(new))
    return ">>".join(sides)


def facts(rsmi):
    f = oracle.reaction_facts(rsmi)
    return f if f["parses"] else None


def micro(x):
    try:
        v = float(x)
    except Exception:
        return -1
    if math.isnan(v) or math.isinf(v):
        return -2
    return int(round(v * 1000000))


def main():
    out_file, tier, seed = sys.argv[1], sys.argv[2], int(sys.argv[3])
    logging.disable(logging.CRITICAL)
    rng = random.Random(seed)
    ev = []

    def add(e):
        e["id"] = len(ev) + 1
        ev.append(e)

    pool = [s for s in corpus.plain_reactions() + corpus.expected_reactions() if stereo_free(s)]
    base = ANAGRAM + corpus.sample(pool, 300 if tier == "quick" else 4000, rng)
    base = [s for s in base if facts(s) is not None]
    intern = oracle.Interner()
    fams = []
    for k, a in enumerate(base):
        members = [a] + [variant(a, rng, mode) for mode in ("perm", "random", "kekule", "mapped", "random")]
        recs = []
        for s in members:
            f = facts(s)
            if f is None:
                continue
            # an exception of the function under test is an observation, not a harness failure
            try:
                out = normalize_smiles(s)
                idem = normalize_smiles(out) == out
                raised = ""
            except Exception as ex:
                out, idem, raised = "RAISED %s #%d" % (type(ex).__name__, len(recs)), False, repr(ex)[:200]
            fo = facts(out) if not raised else None
            recs.append({"smiles": s, "out": out, "idem": idem, "raised": raised,
                         "l": [intern(x) for x in f["l"]], "r": [intern(x) for x in f["r"]],
                         "out_same_molecules": fo is not None and fo["l"] == f["l"] and fo["r"] == f["r"]})
        add({"ev": "family", "fam": k, "members": recs})
        fams.append(members)
    # similarities
    nsim = 120 if tier == "quick" else 1500
    for k in range(min(nsim, len(base))):
        a = base[k]
        b = base[(k * 7 + 3) % len(base)]
        if k % 3 == 0:
            # b = a with one molecule exchanged (same number of molecules)
            la, ra = a.split(">>")
            lb = b.split(">>")[0]
            toks = la.split(".")
            toks[rng.randrange(len(toks))] = lb.split(".")[0]
            b = ".".join(toks) + ">>" + ra
        av = fams[k][2] if len(fams[k]) > 2 else a
        for method in METHODS:
            try:
                e = {"ev": "sim", "a": a, "b": b, "method": method,
                     "ab": micro(wc_similarity(a, b, method)), "ba": micro(wc_similarity(b, a, method)),
                     "avar": micro(wc_similarity(a, av, method)), "avar_rev": micro(wc_similarity(av, a, method)),
                     "aa": micro(wc_similarity(a, a, method)), "raised": ""}
            except Exception as ex:
                e = {"ev": "sim", "a": a, "b": b, "method": method, "ab": -3, "ba": -3, "avar": -3, "avar_rev": -3,
                     "aa": -3, "raised": repr(ex)}
            add(e)
    # the benchmark command on a result file whose expected reaction is a permuted respelling
    from synrbl.SynCmd import cmd_benchmark
    wd = os.path.dirname(out_file)
    nb = 40 if tier == "quick" else 400
    rows = []
    for k, a in enumerate(base[:nb]):
        by = "rule-based" if k % 2 else "mcs-based"
        rows.append({"reaction": a, "input_reaction": a, "solved": k % 5 != 0, "solved_by": by,
                     "confidence": 0.9 if by == "mcs-based" else float("nan"),
                     # some rows have no expected reaction (they are skipped by the command)
                     "expected_reaction": (float("nan") if k % 7 == 3 else
                                           variant(a, rng, "random" if k % 2 else "kekule"))})
    src = os.path.join(wd, "bench_in.csv")
    pd.DataFrame(rows).to_csv(src)
    with open(src + ".stats", "w") as f:
        json.dump({"reaction_cnt": len(rows), "balanced_cnt": 0, "rb_solved": sum(1 for r in rows if r["solved"] and r["solved_by"] == "rule-based"),
                   "rb_applied": sum(1 for r in rows if r["solved_by"] == "rule-based"),
                   "mcs_applied": sum(1 for r in rows if r["solved_by"] == "mcs-based"),
                   "mcs_solved": sum(1 for r in rows if r["solved"] and r["solved_by"] == "mcs-based"),
                   "confident_cnt": 0}, f)
    for method in METHODS:
        outp = os.path.join(wd, "bench_out_%s.json" % method)
        ap = argparse.ArgumentParser()
        sub = ap.add_subparsers()
        cmd_benchmark.configure_argparser(sub)
        err = ""
        res = {}
        try:
            args = ap.parse_args(["benchmark", src, "-o", outp, "--similarity-method", method])
            args.func(args)
            with open(outp) as f:
                res = json.load(f)
        except BaseException as ex:
            err = repr(ex)
        add({"ev": "bench", "method": method, "raised": err, "correct": int(res.get("total_correct", -1)),
             "solved_with_expected": sum(1 for r in rows if r["solved"] and isinstance(r["expected_reaction"], str))})
        if os.path.exists(outp):
            os.remove(outp)
    os.remove(src)
    os.remove(src + ".stats")
    common.write_ndjson(out_file, ev)
    print(json.dumps({"events": len(ev), "families": len(base), "sim_events": sum(1 for e in ev if e["ev"] == "sim")}))


if __name__ == "__main__":
    main()
