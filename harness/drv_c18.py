"""C18 driver: the real merge_stats on batch sequences enumerated by TLC."""
import json
import sys

from harness import common
from synrbl.balancing import merge_stats


def main():
    seq_file, out_file = sys.argv[1], sys.argv[2]
    with open(seq_file) as f:
        seqs = json.load(f)
    ev = []
    for bs in seqs:
        stats = {}
        for b in bs:
            merge_stats(stats, dict(b))
        ev.append({"id": len(ev) + 1, "batches": bs, "result": stats})
    common.write_ndjson(out_file, ev)
    print(json.dumps({"sequences": len(ev)}))


if __name__ == "__main__":
    main()
