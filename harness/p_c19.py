"""C19 - the rule database stays consistent under any sequence of edits."""
import json
import os

from harness import common
from harness.common import Report


def run(tier):
    rep = Report("C19", tier)
    th = common.tree_hash()
    wd = common.workdir("rec", th, "c19_%s_%d" % (tier, common.seed()), fresh=True)
    cfg = "MC_RuleDB.cfg" if tier == "quick" else "MC_RuleDB_big.cfg"
    res, states = common.tlc_dump_states("MC_RuleDB", cfg, workers=8)
    if not res["ok"]:
        raise common.MachineryError("design model violated: %s" % res["violated"])
    rep.add_model(res)
    rep.exhaustive = True
    neg = common.neg_check("MC_RuleDB", "Neg_RuleDB.cfg")
    rep.add_model(neg, role="negative (add without SMILES duplicate test must violate)")
    maxlen = max(len(s["hist"]) for s in states)
    hists = [s["hist"] for s in states if len(s["hist"]) == maxlen]
    hf = os.path.join(wd, "hists.json")
    with open(hf, "w") as f:
        json.dump(hists, f)
    log = os.path.join(wd, "c19.ndjson")
    info = json.loads(common.run_driver("drv_c19", [hf, log, tier, common.seed()]).strip().splitlines()[-1])
    n, bad, st = common.validate_trace("RuleDB_Trace", log)
    rep.add_trace_stats(n, st)
    events = common.read_ndjson(log)
    by = {}
    for e in events:
        by.setdefault(e["tid"], []).append(e)
    for tid, step, clause in bad:
        tr = by[tid]
        e = tr[step]
        args = {k: e[k] for k in e if k in ("formula", "smiles", "entries")}
        sig = "%s %s on db of %d entries" % (e["ev"], json.dumps(args, sort_keys=True), len(tr[step - 1]["after"]))
        rep.fail(clause, sig, detail={"event": e, "before": tr[step - 1]["after"]},
                 replay={"history": tr[: step + 1]}, group="%s/%s" % (e["ev"], clause))
    if tier == "thorough":
        # binding self-test: in 30 recorded histories the database logged after the last accepted add is
        # altered; the specification must flag each of those histories
        sel, want = [], set()
        for tid in sorted(by)[:400]:
            tr = json.loads(json.dumps(by[tid]))
            adds = [e for e in tr if e["ev"] == "add" and not e["raised"] and e["after"]]
            if not adds:
                continue
            adds[-1]["after"][-1]["formula"] += "_x"
            sel += tr
            want.add(tid)
            if len(want) >= 30:
                break
        cp = log + ".corrupted.ndjson"
        common.write_ndjson(cp, sel)
        _, cbad, _ = common.validate_trace("RuleDB_Trace", cp)
        os.remove(cp)
        if not want <= {b[0] for b in cbad}:
            raise common.MachineryError("binding self-test: RuleDB_Trace accepted a corrupted history")
        rep.extra["binding_self_tests"] = ["RuleDB_Trace: %d histories with an altered database snapshot, all rejected" % len(want)]
    rep.sample(by[1])
    rep.sample(by[max(by)][:4])
    rep.extra.update(info)
    rep.extra["histories_replayed"] = len(by)
    rep.assumptions += ["SMILES validity and true compositions come from the RDKit oracle",
                        "'share a SMILES' is string identity, as in the property statement"]
    return rep.finish()


def replay(path):
    with open(path) as f:
        data = json.load(f)
    h = data["replay"]["history"]
    wd = common.workdir("replay_tmp", fresh=True)
    ops = []
    for e in h[1:]:
        if e["ev"] == "add":
            ops.append({"op": "add", "formula": e["formula"], "smiles": e["smiles"]})
        elif e["ev"] == "bulk":
            ops.append({"op": "bulk", "entries": [{"formula": x["formula"], "smiles": x["smiles"]} for x in e["entries"]]})
        else:
            ops.append({"op": "remove", "formula": e["formula"]})
    hf = os.path.join(wd, "h.json")
    with open(hf, "w") as f:
        json.dump([[{"op": "init", "after": h[0]["after"]}] + ops], f)
    log = os.path.join(wd, "r.ndjson")
    os.environ["VERIF_NO_RANDOM"] = "1"
    common.run_driver("drv_c19", [hf, log, "replay", 0])
    n, bad, st = common.validate_trace("RuleDB_Trace", log)
    bad = [b for b in bad if b[0] == 1]
    print("replayed history of %d operations; failing clauses: %s" % (len(ops), bad))
    return 1 if bad else 0
