"""Pipeline recorder: executes a plan of real Balancer.rebalance() calls and
projects arguments, returned rows and statistics into ndjson events for the
trace specifications (API_Trace and friends). Stage snapshots emitted by the
hooks go to <out>.stages.ndjson.

plan = {"runs": [{"name": str, "inputs": [str | dict], "form": "list"|"dict"|"csv"|"json",
                  "batch_size": int|None, "n_jobs": int, "threshold": float,
                  "reaction_col": str, "cache_dir": str|None, "faults": {..}|None}]}
"""
import json
import math
import os
import sys
import time
import tempfile
import logging

from harness import oracle, common


ORGANIC = ("H", "B", "C", "N", "O", "P", "S", "F", "Cl", "Br", "I")


def is_placeholder_input(rsmi):
    """The input contains an open-shell atom of the organic subset: free atomic [H] / [O] / [S] ..., or a radical
    centre inside a molecule (C[CH2], C[C]C). These are the strings the pipeline uses as its own placeholders, and
    atom-map removal (defined for closed-shell molecules only, C15 / C02) turns them into the saturated hydrides
    ([S] -> S = H2S)."""
    sp = oracle.split_reaction(rsmi)
    if sp is None:
        return False
    for side in sp:
        m = oracle.parse(side) if side else None
        if m is None:
            continue
        for a in m.GetAtoms():
            if a.GetSymbol() in ORGANIC and a.GetNumRadicalElectrons() > 0:
                return True
    return False


class Projector:
    def __init__(self):
        self.intern = oracle.Interner()

    def facts(self, rsmi):
        f = oracle.reaction_facts(rsmi)
        if not f["parses"]:
            return {"parses": False, "l": [], "r": [], "lcomp": {}, "rcomp": {}, "lq": 0, "rq": 0}
        return {"parses": True, "l": [self.intern(x) for x in f["l"]], "r": [self.intern(x) for x in f["r"]],
                "lcomp": f["lcomp"], "rcomp": f["rcomp"], "lq": f["lq"], "rq": f["rq"]}


def thousandths(c):
    if c is None or (isinstance(c, float) and math.isnan(c)):
        return -1
    return int(round(float(c) * 1000))


def project_row(proj, arg, row, reaction_col, threshold, keep_maps=False):
    rxn = row.get(reaction_col)
    echo = row.get("input_reaction")
    issue = row.get("issue", "ABSENT")
    if isinstance(issue, float) and math.isnan(issue):
        issue = "ABSENT"
    by = row.get("solved_by", "ABSENT")
    if not isinstance(by, str):
        by = "ABSENT"
    return {
        "ev": "row",
        "argstr": arg,
        "reaction": rxn if isinstance(rxn, str) else "",
        "input_reaction": echo if isinstance(echo, str) else "",
        "arg": proj.facts(arg),
        "echo": proj.facts(echo),
        "out": proj.facts(rxn),
        "solved": bool(row.get("solved", False)),
        "by": by,
        "issue": issue if isinstance(issue, str) else repr(issue),
        "conf": thousandths(row.get("confidence")),
        "conf_raw": repr(row.get("confidence")) if "confidence" in row else "",
        "rules": row.get("rules") if isinstance(row.get("rules"), list) else [],
        "threshold": thousandths(threshold),
        "threshold_raw": repr(threshold),
        "nomap": not (oracle.has_map(rxn if isinstance(rxn, str) else "") or
                      oracle.has_map(echo if isinstance(echo, str) else "")),
        "echo_nomap": not oracle.has_map(echo if isinstance(echo, str) else ""),
        "placeholder": is_placeholder_input(arg) if isinstance(arg, str) else False,
        "keep_maps": bool(keep_maps),
    }


def arg_of(item, reaction_col):
    if isinstance(item, dict):
        return item.get(reaction_col)
    return item


def run_cli(run, rid, proj, wd, devnull):
    """python -m synrbl run <csv> -o <out> --out-columns rid,note (called in
    process through the argparse entry point)."""
    import argparse
    import csv as _csv
    import pandas as pd
    from synrbl.SynCmd import cmd_run
    col = run.get("reaction_col", "reaction")
    src = os.path.join(wd, "cli_in_%d_%d.csv" % (os.getpid(), rid))
    dst = os.path.join(wd, "cli_out_%d_%d.csv" % (os.getpid(), rid))
    recs = run["inputs"]
    with open(src, "w", newline="") as f:
        w = _csv.DictWriter(f, fieldnames=["rid", col, "note"])
        w.writeheader()
        for r_ in recs:
            w.writerow({"rid": r_["rid"], col: r_[col], "note": r_["note"]})
    ap = argparse.ArgumentParser()
    sub = ap.add_subparsers()
    cmd_run.configure_argparser(sub)
    argv = ["run", src, "-o", dst, "-p", str(run.get("n_jobs", 1)), "--col", col, "--out-columns", "rid,note"]
    if run.get("batch_size"):
        argv += ["--batch-size", str(run["batch_size"])]
    if run.get("threshold"):
        argv += ["--min-confidence", str(run["threshold"])]
    err = ""
    stderr_fd = os.dup(2)
    os.dup2(devnull.fileno(), 2)
    try:
        args = ap.parse_args(argv)
        args.func(args)
    except BaseException as ex:  # argparse exits, CLI validation errors
        err = repr(ex)
    finally:
        os.dup2(stderr_fd, 2)
        os.close(stderr_fd)
    rows = []
    stats = {}
    if os.path.exists(dst):
        df = pd.read_csv(dst, keep_default_na=False)
        for rec in df.to_dict("records"):
            echo = rec.get("input_reaction", "")
            rows.append({"rid": str(rec.get("rid", "")), "note": str(rec.get("note", "")),
                         "echo": echo if isinstance(echo, str) else "",
                         "reaction": rec.get(col, "") if isinstance(rec.get(col, ""), str) else "",
                         "solved": str(rec.get("solved", "")) == "True",
                         "by": rec.get("solved_by") if isinstance(rec.get("solved_by"), str) and rec.get("solved_by") else "ABSENT",
                         "echo_facts": {k: v for k, v in proj.facts(echo if isinstance(echo, str) else "").items()
                                        if k in ("parses", "l", "r")}})
        os.remove(dst)
    sp = dst + ".stats"
    if os.path.exists(sp):
        with open(sp) as f:
            stats = {k: int(v) for k, v in json.load(f).items()}
        os.remove(sp)
    os.remove(src)
    return {"ev": "cli", "run": rid, "name": run.get("name"), "ninputs": len(recs), "nrows": len(rows),
            "raised": err, "rows": rows, "stats": stats,
            "inputs": [{"rid": str(r_["rid"]), "note": str(r_["note"]), "arg": r_[col]} for r_ in recs],
            "arg_facts": [{k: v for k, v in proj.facts(r_[col]).items() if k in ("parses", "l", "r")} for r_ in recs],
            "kinds": run.get("kinds", []),
            "cfg": {"batch_size": run.get("batch_size"), "n_jobs": run.get("n_jobs", 1),
                    "threshold": run.get("threshold", 0), "form": "cli", "col": col}}


def main():
    plan_file, out_file = sys.argv[1], sys.argv[2]
    with open(plan_file) as f:
        plan = json.load(f)
    stages_file = out_file + ".stages.ndjson"
    for p in (out_file, stages_file):
        if os.path.exists(p):
            os.remove(p)
    logging.disable(logging.CRITICAL)
    from synrbl import Balancer
    from synrbl.SynUtils.batching import Dataset

    proj = Projector()
    balancers = {}
    eid = 0
    out = open(out_file, "w")

    def nonull(v):
        if v is None:
            return "NONE"
        if isinstance(v, dict):
            return {k: nonull(x) for k, x in v.items()}
        if isinstance(v, list):
            return [nonull(x) for x in v]
        return v

    def emit(e):
        nonlocal eid
        eid += 1
        e = nonull(e)
        e["id"] = eid
        out.write(json.dumps(e, sort_keys=True) + "\n")

    devnull = open(os.devnull, "w")
    confs_of_run = {}
    for rid, run in enumerate(plan["runs"], 1):
        col = run.get("reaction_col", "reaction")
        tf = run.get("threshold_from")
        if tf:
            # a threshold that sits on a confidence this process reported in an earlier run of the plan:
            # "exact" = the float as reported, "typed" = what a user reads and types (3 decimals),
            # "above" / "below" = one thousandth off
            cs = confs_of_run.get(tf["run"], [])
            if cs:
                c = cs[tf["k"] % len(cs)]
                run["threshold"] = {"exact": c, "typed": round(c, 3), "above": min(1.0, round(c + 0.001, 3)),
                                    "below": max(0.0, round(c - 0.001, 3))}[tf["mode"]]
            else:
                run["threshold"] = 0.5
        key = (col, bool(run.get("cache_dir")), run.get("id_col", "id"))
        if key not in balancers:
            balancers[key] = Balancer(reaction_col=col, n_jobs=run.get("n_jobs", 1), id_col=run.get("id_col", "id"))
        b = balancers[key]
        if run.get("fresh"):
            # a new object for this call: nothing an earlier call left in the object can be seen
            b = Balancer(reaction_col=col, n_jobs=run.get("n_jobs", 1))
        if run.get("ctor"):
            # the threshold (and batch size) given to the constructor of a new object instead of being assigned
            b = Balancer(reaction_col=col, n_jobs=run.get("n_jobs", 1), confidence_threshold=run.get("threshold", 0))
        else:
            b.confidence_threshold = run.get("threshold", 0)
        b.n_jobs = run.get("n_jobs", 1)
        b.remove_aam = bool(run.get("remove_aam", True))     # public attribute; False keeps the input's atom maps
        b.cache = bool(run.get("cache_dir"))
        b.cache_dir = run.get("cache_dir")
        inputs = run["inputs"]
        form = run.get("form", "list")
        tmp = None
        if form == "cli":
            emit(run_cli(run, rid, proj, os.path.dirname(out_file), devnull))
            continue
        if form == "list":
            data = list(inputs)
        elif form == "dict":
            data = [dict(x) if isinstance(x, dict) else {col: x} for x in inputs]
        elif form in ("csv", "json"):
            import csv as _csv
            fd, tmp = tempfile.mkstemp(suffix="." + form, dir=os.path.dirname(out_file))
            os.close(fd)
            recs = [dict(x) if isinstance(x, dict) else {col: x} for x in inputs]
            if form == "json":
                with open(tmp, "w") as f:
                    json.dump(recs, f)
            else:
                cols = []
                for r_ in recs:
                    for k in r_:
                        if k not in cols:
                            cols.append(k)
                with open(tmp, "w", newline="") as f:
                    w = _csv.DictWriter(f, fieldnames=cols)
                    w.writeheader()
                    for r_ in recs:
                        w.writerow(r_)
            data = Dataset(tmp)
        else:
            raise SystemExit("unknown form " + form)
        os.environ["SYNRBL_VERIF_TRACE"] = stages_file
        # the fault plan path is fixed for the whole driver process (joblib workers
        # inherit the environment when they are spawned); its content changes per run
        fp = out_file + ".faults.json"
        with open(fp, "w") as f:
            json.dump(run.get("faults") or {}, f)
        os.environ["SYNRBL_VERIF_FAULTS"] = fp
        gdir = out_file + ".gates"
        import shutil as _sh
        _sh.rmtree(gdir, ignore_errors=True)
        os.makedirs(gdir, exist_ok=True)
        os.environ["SYNRBL_VERIF_GATES"] = gdir
        from synrbl import _verif
        _verif.emit("run_begin", run=rid, name=run.get("name"))
        stats = {}
        t0 = time.time()
        err = None
        rows = None
        stderr_fd = os.dup(2)
        os.dup2(devnull.fileno(), 2)
        try:
            rows = b.rebalance(data, output_dict=True, stats=stats, batch_size=run.get("batch_size"))
        except Exception as ex:  # the call itself raised
            err = repr(ex)
        finally:
            os.dup2(stderr_fd, 2)
            os.close(stderr_fd)
        _verif.emit("run_end", run=rid)
        # the default output form (output_dict=False: a list with one reaction string per input)
        plain, plain_used = [], False
        if run.get("also_plain") and form in ("list", "dict"):
            plain_used = True
            data2 = list(inputs) if form == "list" else [dict(x) if isinstance(x, dict) else {col: x} for x in inputs]
            stderr_fd = os.dup(2)
            os.dup2(devnull.fileno(), 2)
            try:
                if run.get("ctor_bs"):
                    b2 = Balancer(reaction_col=col, n_jobs=run.get("n_jobs", 1), batch_size=run.get("batch_size"))
                    plain = b2.rebalance(data2)
                else:
                    plain = b.rebalance(data2, batch_size=run.get("batch_size"))
                plain = [x if isinstance(x, str) else repr(x) for x in plain]
            except Exception as ex:
                plain = ["RAISED " + repr(ex)]
            finally:
                os.dup2(stderr_fd, 2)
                os.close(stderr_fd)
        if tmp:
            os.remove(tmp)
        wall = time.time() - t0
        if rows is not None:
            confs_of_run[run.get("name")] = sorted({float(r["confidence"]) for r in rows
                                                    if r.get("solved_by") == "mcs-based"
                                                    and isinstance(r.get("confidence"), (int, float))
                                                    and r["confidence"] == r["confidence"]})
        args = [arg_of(x, col) for x in inputs]
        aligned = rows is not None and len(rows) == len(inputs)
        summary = []
        if rows is not None:
            for k, row in enumerate(rows):
                arg = args[k] if aligned else row.get("input_reaction")
                e = project_row(proj, arg if isinstance(arg, str) else "", row, col, run.get("threshold", 0),
                                keep_maps=not run.get("remove_aam", True))
                e.update({"run": rid, "name": run.get("name"), "pos": k, "aligned": aligned})
                emit(e)
                summary.append({"solved": e["solved"], "by": e["by"], "echo": e["input_reaction"],
                                "reaction": e["reaction"],
                                "echo_facts": {k: e["echo"][k] for k in ("parses", "l", "r")}})
        emit({"ev": "run", "run": rid, "name": run.get("name"), "ninputs": len(inputs),
              "nrows": len(rows) if rows is not None else -1, "raised": err or "",
              "rows": summary, "stats": {k: int(v) for k, v in stats.items()},
              "cfg": {"batch_size": run.get("batch_size"), "n_jobs": run.get("n_jobs", 1),
                      "threshold": run.get("threshold", 0), "form": form, "col": col},
              "args": [a if isinstance(a, str) else repr(a) for a in args],
              "arg_facts": [{k: v for k, v in proj.facts(a if isinstance(a, str) else "").items()
                             if k in ("parses", "l", "r")} for a in args],
              "kinds": run.get("kinds", []), "plain_used": plain_used, "plain": plain,
              "wall_s": round(wall, 2)})
    out.close()
    with open(out_file + ".mols.json", "w") as f:
        json.dump(proj.intern.table(), f)
    print(json.dumps({"events": eid, "runs": len(plan["runs"])}))


if __name__ == "__main__":
    main()
