"""C09 - fragment merging conserves atoms; reported rules explain the result."""
import json
import os

from harness import common
from harness.common import Report


def run(tier):
    rep = Report("C09", tier)
    cfg = "MC_Merge.cfg" if tier == "quick" else "MC_Merge_big.cfg"
    rep.add_model(common.design_check("MC_Merge", cfg, workers=12, timeout=3000),
                  role="design: every pair of boundary descriptors against the shipped rule tables")
    rep.add_model(common.neg_check("MC_Merge", "Neg_Merge_loop.cfg"),
                  role="negative: a completion loop that stops at the first boundary without an expand rule leaves boundaries open")
    rep.exhaustive = True
    th = common.tree_hash()
    wd = common.workdir("rec", th, "c09_%s_%d" % (tier, common.seed()), fresh=True)
    log = os.path.join(wd, "c09.ndjson")
    info = json.loads(common.run_driver("drv_c09", [log, tier, common.seed()], timeout=4 * 3600).strip().splitlines()[-1])
    n, bad, st = common.validate_trace("Merge_Trace", log, xmx="12g")
    rep.add_trace_stats(n, st)
    events = {e["id"]: e for e in common.read_ndjson(log)}
    drift = []
    for eid, clause in bad:
        e = events[eid]
        if clause.startswith("DRIFT_"):
            drift.append({"src": e["src"], "frags": e["frag_smiles"], "b": e["b"], "rules": e["rules"]})
            continue
        sig = "%s src=%s fragments=%s" % (e["ev"], e["src"], ".".join(e["frag_smiles"]))
        rep.fail(clause, sig, group="%s/%s" % (e["ev"], clause),
                 detail={k: e.get(k) for k in ("src", "frag_smiles", "b", "rules", "out", "raised", "open", "heavy",
                                               "frag_heavy", "same", "attached", "use_smiles")},
                 replay={"src": e["src"], "frag_smiles": e["frag_smiles"]})
    rep.extra.update(info)
    from harness import missing_graph
    missing_graph.run(rep, tier, wd)
    from harness import uncertainty
    uncertainty.run(rep, tier, wd)
    rep.extra["model_drift_count"] = len(drift)
    rep.extra["model_drift"] = drift[:5]
    m2 = [e for e in events.values() if e["ev"] == "merge2"]
    m1 = [e for e in events.values() if e["ev"] == "merge1" and e["rules"]]
    rep.sample({k: m2[0][k] for k in ("src", "frag_smiles", "b", "rules", "out", "same")})
    rep.sample({k: m1[0][k] for k in ("src", "frag_smiles", "b", "rules", "out", "attached")})
    rep.assumptions += ["fragments are produced by the harness with RDKit (bond removed, one hydrogen added to each end) and "
                        "passed half of the time as molecule objects and half as SMILES strings with re-mapped indices",
                        "functional-group membership and pattern matches in the boundary descriptors are logged from the "
                        "code's own matcher (C16 judges that matcher separately); identity ignores stereo marks"]
    return rep.finish()


def replay(path):
    with open(path) as f:
        data = json.load(f)
    print("re-run ./check C09; failing case:", data["replay"])
    return 1
