"""C14 - composition-determined outcomes ignore how the SMILES is written."""
import json
import os
import random

from rdkit import Chem

from harness import common, corpus, gen, oracle
from harness.common import Report

REDOX_ELEMS = {"Cr", "Mn", "Al", "B", "Li", "Na", "K"}
FIXED = ["CC(=O)Cl.CCO.CCO>>CC(=O)OCC.CCO", "CC(=O)OC.CCO.CCO>>CC(=O)OCC.CO.CCO", "CCBr.[OH-]>>CCO", "CC(=O)Cl.N>>CC(N)=O",
         "c1ccccc1C(=O)Cl.OC>>c1ccccc1C(=O)OC", "CCO.CC(=O)O>>CCOC(C)=O", "CCN.CC(=O)Cl>>CCNC(C)=O", "CCO>>CCO",
         "C1=CC=CC=C1Br.OB(O)c1ccccc1>>c1ccccc1-c1ccccc1", "CC(=O)O.CC(=O)O.OCCO>>CC(=O)OCCOC(C)=O.O.O",
         "CCCl.[Na+].[OH-]>>CCO", "CS(=O)(=O)Cl.CCO>>CCOS(C)(=O)=O", "O=C(Cl)c1ccccc1.NCC>>O=C(NCC)c1ccccc1",
         "CCI.CC[O-].[Na+]>>CCOCC", "c1ccc2ccccc2c1Br.N>>c1ccc2ccccc2c1N", "ClCCl.N.N>>NCN", "CC(C)Br.[N-]=[N+]=[N-]>>CC(C)N=[N+]=[N-]"]


# reagents the rule-based stage recognises by their text ([Na], [K], [Li], [H-]): hydride deprotonations, metal reductions
HYDRIDE = ["CCO.[Na+].[H-]>>CC[O-].[Na+]", "CC(C)O.[K+].[H-]>>CC(C)[O-].[K+]", "c1ccccc1O.[Li+].[H-]>>c1ccccc1[O-].[Li+]",
           "CC(=O)CC(C)=O.[Na+].[H-]>>CC(=O)[CH-]C(C)=O.[Na+]", "CCS.[Na+].[H-]>>CC[S-].[Na+]", "[Na].CCO>>CC[O-].[Na+]",
           "[K].CO>>C[O-].[K+]", "[Li].CCO>>CC[O-].[Li+]", "CC#C.[Na+].[NH2-]>>CC#[C-].[Na+].N"]


def stereo_free(s):
    return not any(ch in s for ch in "@/\\")


def variant(rsmi, rng, mode):
    sides = []
    start = rng.randint(1, 30)
    for side in rsmi.split(">>"):
        toks = list(side.split(".")) if side else []
        if mode in ("perm", "random", "mapped"):
            rng.shuffle(toks)
        new = []
        for t in toks:
            m = oracle.parse(t)
            if m is None or mode == "perm":
                new.append(t)
            elif mode == "random":
                new.append(Chem.MolToSmiles(m, doRandom=True, canonical=False))
            elif mode == "canonical":
                new.append(Chem.MolToSmiles(m))
            elif mode == "kekule":
                mk = Chem.Mol(m)
                try:
                    Chem.Kekulize(mk, clearAromaticFlags=True)
                    new.append(Chem.MolToSmiles(mk, kekuleSmiles=True))
                except Exception:
                    new.append(Chem.MolToSmiles(m))
            elif mode == "mapped":
                s2, start = gen.add_maps(t, rng, start=start)
                new.append(s2)
        sides.append(".".join(new))
    return ">>".join(sides)


def _added(e):
    out = {}
    for side in ("l", "r"):
        a = list(e["arg"][side])
        extra = []
        for m in e["out"][side]:
            if m in a:
                a.remove(m)
            else:
                extra.append(m)
        out[side] = extra
    return out


def run(tier):
    rep = Report("C14", tier)
    rep.add_model(common.design_check("MC_Composition", "MC_Composition.cfg", workers=8),
                  role="design: verdict and difference formula are functions of the compositions")
    rep.add_model(common.design_check("Constrain", "MC_Constrain.cfg", workers=8),
                  role="design: substring surgery = whole-token surgery, independent of the order of the input molecules")
    rep.add_model(common.neg_check("Constrain", "Neg_Constrain.cfg"),
                  role="negative: input molecules whose text begins with a marker")
    from harness import constrain_replay
    constrain_replay.run(rep, "C14", {"OrderOfInputIrrelevant"})
    rng = random.Random(common.seed() * 57 + 11)
    th = common.tree_hash()
    wd = common.workdir("rec", th, "c14_%s_%d" % (tier, common.seed()), fresh=True)
    pool = [s for s in corpus.plain_reactions() + corpus.expected_reactions() if stereo_free(s) and "[H]" not in s
            and "[O]" not in s.replace("[O-]", "")]
    pool = corpus.small_fast(pool, max_heavy=40)
    # reactions whose imbalance has several equally short decompositions into database compounds
    # (inputs with the free-atom placeholders [H] / [O] are left out here as in the corpus pool: the pipeline uses
    # these very strings as its own markers, see C02)
    tied = [s for s in gen.tied_completions(400, random.Random(common.seed()))
            if "[H]" not in s.replace("[H][H]", "") and "[O]" not in s.replace("[O-]", "")]
    base = FIXED + HYDRIDE + tied + corpus.sample(pool, 70 if tier == "quick" else 900, rng)
    seen = set()
    base = [s for s in base if oracle.reaction_facts(s)["parses"] and not (s in seen or seen.add(s))]
    modes = ["canonical", "perm", "random", "kekule", "mapped", "random"] if tier == "quick" else \
        ["canonical", "perm", "random", "kekule", "mapped", "random", "random", "mapped", "perm", "random"]
    inputs = []
    fam_of = []
    for k, s in enumerate(base):
        mem = [s] + [variant(s, rng, m) for m in modes]
        for v in mem:
            if oracle.reaction_facts(v)["parses"]:
                inputs.append(v)
                fam_of.append(k)
    # all spellings in one batch (shuffled), so that string-keyed caches would be shared
    order = list(range(len(inputs)))
    rng.shuffle(order)
    plan = {"runs": [{"name": "spellings", "inputs": [inputs[j] for j in order], "n_jobs": 16, "threshold": 0}]}
    # the same families with atom-map removal switched off (Balancer.remove_aam = False): the rule-based stage then
    # sees the mapped spellings themselves
    keep = [j for j in order if fam_of[j] < len(FIXED) + len(HYDRIDE)]
    plan["runs"].append({"name": "spellings_keep_maps", "inputs": [inputs[j] for j in keep], "n_jobs": 16, "threshold": 0,
                         "remove_aam": False})
    # ... and cut into small batches, with verbatim repeats of rows in later batches
    rep_ = [j for j in order if fam_of[j] < len(FIXED) + len(HYDRIDE) + 20]
    batched = rep_ + rep_[::3] + rep_[1::5]
    plan["runs"].append({"name": "spellings_batched", "inputs": [inputs[j] for j in batched], "n_jobs": 1, "threshold": 0,
                         "batch_size": 6})
    pf = os.path.join(wd, "plan.json")
    with open(pf, "w") as f:
        json.dump(plan, f)
    lg = os.path.join(wd, "run.ndjson")
    common.run_driver("drv_pipeline", [pf, lg], timeout=4 * 3600)
    allrows = [e for e in common.read_ndjson(lg) if e["ev"] == "row"]
    rows = [e for e in allrows if e["run"] == 1]
    rows2 = [e for e in allrows if e["run"] == 2]
    rows3 = [e for e in allrows if e["run"] == 3]
    if len(rows3) != len(batched):
        # rows lost in the batched run: nothing to compare, and that is itself spelling / layout dependence
        rep.fail("BatchedRunReturnsEveryRow", "batched run returned %d rows for %d valid inputs" % (len(rows3), len(batched)),
                 detail={"batch_size": 6}, group="rows-lost", replay={"inputs": [inputs[j] for j in batched][:40]})
        batched, rows3 = [], []
    if len(rows) != len(inputs) or len(rows2) != len(keep):
        raise common.MachineryError("pipeline returned %d + %d rows for %d + %d valid inputs" % (len(rows), len(rows2),
                                                                                              len(inputs), len(keep)))
    with open(lg + ".mols.json") as f:
        mols = json.load(f)
    by_input = {}
    for j, e in zip(order, rows):
        by_input[j] = e
    fams = {}
    for j, k in enumerate(fam_of):
        fams.setdefault(k, []).append(by_input[j])
    # families of the run that keeps the maps are numbered after the others
    nf = max(fam_of) + 1
    for j, e in zip(keep, rows2):
        fams.setdefault(nf + fam_of[j], []).append(e)
    for j, e in zip(batched, rows3):
        fams.setdefault(2 * nf + fam_of[j], []).append(e)
    events = []
    for k in sorted(fams):
        mem = []
        redox = False
        for e in fams[k]:
            if "timeout" in e["issue"].lower():
                continue   # wall-clock budget hit: not reproducible
            ad = _added(e)
            for mid in ad["l"] + ad["r"]:
                smi = mols.get(str(mid), "")
                m = oracle.parse(smi)
                if smi in ("[H][H]", "[H]", "[O]") or (m is not None and any(a.GetSymbol() in REDOX_ELEMS for a in m.GetAtoms())):
                    redox = True
            # what kind of redox completion was made and on which side, whatever reagent template spells it:
            # hydrogen ([H], [H][H], a hydride donor) or oxygen ([O], a Cr / Mn oxidant)
            sig = set()
            for side in ("l", "r"):
                for mid in ad[side]:
                    smi = mols.get(str(mid), "")
                    m = oracle.parse(smi)
                    syms = {a.GetSymbol() for a in m.GetAtoms()} if m is not None else set()
                    if smi in ("[H][H]", "[H]") or smi in ("[BH4-]", "[AlH4-]", "[BH3-]C#N", "N#C[BH3-]"):
                        sig.add(side + ":H")
                    elif smi == "[O]" or (side == "l" and syms & {"Cr", "Mn"}):
                        sig.add(side + ":O")      # an oxidant among the reactants; its reduced form on the right is a by-product
            mem.append({"input": e["argstr"], "solved": e["solved"], "by": e["by"], "l": e["arg"]["l"], "r": e["arg"]["r"],
                        "add_l": ad["l"], "add_r": ad["r"], "reaction": e["reaction"], "redox_sig": sorted(sig)})
        if len(mem) >= 2:
            events.append({"ev": "family", "id": len(events) + 1, "fam": k, "redox_template": redox, "members": mem})
    log = os.path.join(wd, "c14.ndjson")
    common.write_ndjson(log, events)
    n, bad, st = common.validate_trace("Spelling_Trace", log, xmx="12g")
    rep.add_trace_stats(n, st)
    evd = {e["id"]: e for e in events}
    for eid, pos, clause in bad:
        e = evd[eid]
        if clause.startswith("HARNESS_"):
            raise common.MachineryError("variant generator changed the reaction: %s" % e["members"][pos - 1]["input"])
        cds = [m for m in e["members"] if m["solved"] and m["by"] in ("input-balanced", "rule-based")]
        b, v = (cds[0] if cds else e["members"][0]), e["members"][pos - 1]
        sig = "base=%s variant=%s" % (b["input"], v["input"])
        rep.fail(clause, sig, group=clause,
                 detail={"base": {k: b[k] for k in ("input", "solved", "by", "reaction")},
                         "variant": {k: v[k] for k in ("input", "solved", "by", "reaction")}},
                 replay={"inputs": [b["input"], v["input"]]})
    cd = [e for e in events if any(m["solved"] and m["by"] in ("input-balanced", "rule-based") for m in e["members"])]
    rep.extra.update({"families": len(events), "composition_determined_families": len(cd),
                      "rule_based_families": sum(1 for e in cd if e["members"][0]["by"] == "rule-based"),
                      "redox_template_families": sum(1 for e in cd if e["redox_template"]),
                      "spellings_run": len(inputs)})
    rep.sample({"base": cd[0]["members"][0]["input"], "variants": [m["input"] for m in cd[0]["members"][1:4]],
                "outcome": cd[0]["members"][0]["reaction"]})
    rep.assumptions += ["variants are produced with RDKit and verified by TLC to be the same multiset of molecules per side",
                        "stereo-free inputs without free atomic H/O or explicit [H] atoms; families whose completion "
                        "involves a redox reagent template are compared on the verdict only"]
    return rep.finish()


def replay(path):
    with open(path) as f:
        data = json.load(f)
    print("re-run ./check C14; failing pair:", data["replay"])
    return 1
