"""C07 - element, hydrogen and charge accounting is exact; verdicts agree."""
import json
import os

from harness import common
from harness.common import Report


def _dict(v):
    return {} if v == [] else v


def run(tier):
    rep = Report("C07", tier)
    th = common.tree_hash()
    wd = common.workdir("rec", th, "c07_%s_%d" % (tier, common.seed()), fresh=True)
    # 1. design: exhaustive comparison logic, Algo = Math on all pairs
    cfg = "MC_Composition.cfg" if tier == "quick" else "MC_Composition_big.cfg"
    res, states = common.tlc_dump_states("MC_Composition", cfg, workers=8)
    if not res["ok"]:
        raise common.MachineryError("design model violated: %s" % res["violated"])
    rep.add_model(res)
    rep.exhaustive = True
    # sensitivity of the invariants (a mutated transcription must be caught)
    neg = common.neg_check("MC_Composition", "Neg_Composition.cfg")
    rep.add_model(neg, role="negative (strict comparison mutant must violate)")
    # 2. spec -> code: every enumerated pair through the real functions
    pairs = [[_dict(s["r"]), _dict(s["p"])] for s in states]
    pf = os.path.join(wd, "pairs.json")
    with open(pf, "w") as f:
        json.dump(pairs, f)
    log = os.path.join(wd, "c07.ndjson")
    info = json.loads(common.run_driver("drv_c07", [pf, log, tier, common.seed()]).strip().splitlines()[-1])
    # 3. code -> spec: TLC judges every recorded call
    n, bad, st = common.validate_trace("Composition_Trace", log)
    rep.add_trace_stats(n, st)
    events = {e["id"]: e for e in common.read_ndjson(log)}
    for eid, clause in bad:
        e = events[eid]
        grp = None
        if e["ev"] == "compare":
            sig = "compare r=%s p=%s" % (json.dumps(e["r"], sort_keys=True), json.dumps(e["p"], sort_keys=True))
        elif e["ev"] == "decompose":
            unknown = sorted(k for k in e["out"] if k not in {a["s"] for a in e["atoms"]} | {"H", "Q"})
            sig = "decompose %s unexpected_keys=%s" % (e["smiles"], unknown)
            grp = "decompose unexpected_keys=%s" % unknown
        else:
            sig = "%s %s" % (e["ev"], e.get("smiles"))
        rep.fail(clause, sig, detail=e, replay={"event": e}, group=grp)
    # 4. the counter memo of CheckCarbonBalance: design, sensitivity, every call history replayed
    rep.add_model(common.neg_check("MC_CountCache", "Neg_CountCache.cfg"), role="negative: memo shared by all objects")
    res2, cstates = common.tlc_dump_states("MC_CountCache", "MC_CountCache.cfg", workers=8)
    if not res2["ok"]:
        raise common.MachineryError("design model violated: %s" % res2["violated"])
    rep.add_model(res2, role="design: counter memo, all histories of <= 5 calls on 2 objects")
    # unbounded histories: the invariant is inductive for an arbitrary true-count function (Apalache)
    rep.add_model(common.apalache_check("MC_CountCacheInd", "ConstInit", "Init", "IndInv", 0),
                  role="apalache: Init => IndInv (counter memo, object scope, arbitrary true counts)")
    rep.add_model(common.apalache_check("MC_CountCacheInd", "ConstInit", "IndInit", "IndInv", 1),
                  role="apalache: IndInv /\\ Next => IndInv' (holds for call histories of any length)")
    rep.add_model(common.apalache_check("MC_CountCacheInd", "ConstInitProcess", "IndInit", "IndInv", 1, expect_error=True),
                  role="apalache negative: with a process-wide memo the invariant is not inductive")
    full = [s["hist"] for s in cstates if len(s["hist"]) == 5 and sum(1 for x in s["hist"] if x["op"] == "count") >= 2]
    import random
    random.Random(common.seed()).shuffle(full)
    if tier == "quick":
        full = full[:1200]
    hf = os.path.join(wd, "hists.json")
    with open(hf, "w") as f:
        json.dump(full, f)
    clog = os.path.join(wd, "c07cache.ndjson")
    cinfo = json.loads(common.run_driver("drv_c07cache", [hf, clog, tier, common.seed()]).strip().splitlines()[-1])
    n2, bad2, st2 = common.validate_trace("CountCache_Trace", clog)
    rep.add_trace_stats(n2, st2)
    cevents = {e["id"]: e for e in common.read_ndjson(clog)}
    for eid, clause in bad2:
        e = cevents[eid]
        if clause.startswith("HARNESS_"):
            raise common.MachineryError("model token bags disagree with the oracle: %r" % e)
        hist = full[e["hist"]] if e["hist"] >= 0 else "interleaved corpus run"
        rep.fail(clause, "count atom=%s token=%s" % (e["atom"], e["smiles"]), detail={"event": e, "history": hist},
                 replay={"event": e, "history": hist}, group="count/" + clause)
    rep.extra.update({"count_histories_replayed": len(full), "count_events": cinfo["count_events"]})
    if tier == "thorough":
        def corrupt(e):
            if e["ev"] == "compare" and e["verdict"] == "Balance":
                e["verdict"] = "Products"
                return e
            if e["ev"] == "decompose" and "H" in e["out"]:
                e["out"]["H"] += 1
                return e
            return None
        common.binding_selftest(rep, "Composition_Trace", log, corrupt)
    for e in list(events.values())[:3] + [events[len(pairs) + 5]]:
        rep.sample({k: e[k] for k in e if k != "atoms"})
    rep.extra.update({"pairs_enumerated_by_tlc": len(pairs), "molecules_decomposed": info["molecules"],
                      "events": info["events"]})
    rep.assumptions += [
        "RDKit parsing, hydrogen counts and formal charges (oracle) are trusted",
        "comparison logic exhaustive only over the bounded key set of the MC configuration",
    ]
    return rep.finish()


def replay(path):
    with open(path) as f:
        data = json.load(f)
    e = data["replay"]["event"]
    e["id"] = 1
    if e["ev"] == "count":
        print("re-run ./check C07; failing counter call:", json.dumps(data["replay"])[:600])
        return 1
    wd = common.workdir("replay_tmp", fresh=True)
    p = os.path.join(wd, "one.ndjson")
    common.write_ndjson(p, [e])
    n, bad, st = common.validate_trace("Composition_Trace", p)
    print("replayed recorded event; failing clauses:", bad)
    return 1 if bad else 0
