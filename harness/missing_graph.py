"""Coverage extension (not a listed property on its own): the step between the MCS search (C10) and
fragment merging (C09) - FindMissingGraphs.find_missing_parts_pairs - modelled in MissingGraph.tla.
TLC checks the design facts on every bounded case, the cases are replayed through the real function and
TLC judges every output (MissingGraph_Trace). Disagreement is model drift: it is recorded in the evidence
and printed as a MODEL-DRIFT note, it is not a verdict on a listed property."""
import json
import os
import random

from harness import common


def run(rep, tier, wd):
    rep.add_model(common.neg_check("MC_MissingGraph", "Neg_MissingGraph.cfg"),
                  role="negative (missing-graph step): one boundary entry per rest atom loses ring bonds")
    res, states = common.tlc_dump_states("MC_MissingGraph", "MC_MissingGraph.cfg", workers=8)
    if not res["ok"]:
        raise common.MachineryError("MissingGraph design model violated: %s" % res["violated"])
    rep.add_model(res, role="design (missing-graph step): reassembly, conservation, attachment on every bounded "
                            "(skeleton, matched atoms) case")
    cases = [{"lab": s["g"]["lab"], "edges": [sorted(e) for e in s["g"]["edges"]], "M": sorted(s["M"])} for s in states]
    random.Random(common.seed() * 7 + 3).shuffle(cases)
    if tier == "quick":
        cases = cases[:2500]
    cf = os.path.join(wd, "missing_cases.json")
    with open(cf, "w") as f:
        json.dump(cases, f)
    log = os.path.join(wd, "missing.ndjson")
    info = json.loads(common.run_driver("drv_missing", [cf, log, tier, common.seed()], timeout=4 * 3600).strip().splitlines()[-1])
    n, bad, st = common.validate_trace("MissingGraph_Trace", log, xmx="8g")
    rep.add_trace_stats(n, st)
    events = {e["id"]: e for e in common.read_ndjson(log)}
    by_clause = {}
    examples = {}
    in_scope = 0
    for eid, clause in bad:
        e = events[eid]
        scope = "bounded" if e["ev"] == "missing" else ("corpus/ring-cut" if e.get("ring_cut") else "corpus")
        key = "%s:%s" % (scope, clause)
        by_clause[key] = by_clause.get(key, 0) + 1
        examples.setdefault(key, {"smiles": e.get("smiles"), "pattern": e.get("pattern"), "raised": (e.get("raised") or "")[:120]})
        if scope == "bounded":
            in_scope += 1
    info.update({"drift_by_scope_and_clause": by_clause, "drift_examples": examples,
                 "bounded_cases_in_model": len(states), "bounded_cases_replayed": len(cases)})
    rep.extra["missing_graph_model"] = info
    if in_scope:
        print("MODEL-DRIFT missing-graph step: %d bounded cases are not explained by MissingGraph.tla: %s"
              % (in_scope, json.dumps({k: v for k, v in by_clause.items() if k.startswith("bounded")})))
    return info
