"""Driver for Templates.tla: (a) the shipped reagent templates with oracle compositions, one event per
(template, way the code uses it); (b) the real process_reduct_template / process_ox_template on reactions
that carry placeholder atoms, with oracle compositions of what went in and what came out."""
import json
import logging
import sys

from harness import oracle, common

from synrbl.SynChemImputer.curate_reduction import CurationReduction, compounds_template, reaction_templates
from synrbl.SynChemImputer.curate_oxidation import CurationOxidation

PER_ATOM = ("primary_alcohol>>aldehyde", "secondary_alcohol>>ketone", "aldehyde>>carboxylic_acid")


def comp(smiles):
    c = oracle.comp(smiles)
    if c is None:
        return None
    d, q = c
    d = dict(d)
    if q:
        d["Q"] = q
    return d


def side_comp(parts):
    tot = {}
    for p in parts:
        c = comp(p)
        if c is None:
            return None
        for k, v in c.items():
            tot[k] = tot.get(k, 0) + v
    return {k: v for k, v in tot.items() if v != 0}


def tpl(rec):
    return {"reactants": [comp(s) for s in rec["reactants"]], "products": [comp(s) for s in rec["products"]],
            "text": ".".join(rec["reactants"]) + ">>" + ".".join(rec["products"])}


def main():
    out_file, tier = sys.argv[1], sys.argv[2]
    logging.disable(logging.CRITICAL)
    ev = []

    def add(e):
        e["id"] = len(ev) + 1
        ev.append(e)

    # (a) tables
    for cls, names in compounds_template["reduction"].items():
        for name in names:
            for variant in ("ion", "neutral"):
                t = tpl(reaction_templates["reduction"][name][variant])
                add({"ev": "table", "kind": "reduction", "cls": cls, "name": name, "variant": variant, "mode": "per_pair",
                     "n": 2, "t": t})
    for cls, names in compounds_template["oxidation"].items():
        for name in names:
            t = tpl(reaction_templates["oxidation"][name])
            mode = "per_atom" if cls in PER_ATOM else "once"
            add({"ev": "table", "kind": "oxidation", "cls": cls, "name": name, "variant": "", "mode": mode,
                 "n": 1 if mode == "per_atom" else 2, "t": t})
    # (b) applications
    alk = ["C", "CC", "c1ccccc1", "CC(C)", "C1CCCCC1"]
    red, ox = [], []
    for a in alk:
        red += [(a + "C=O", a + "CO", 2), (a + "C(=O)C", a + "C(O)C", 2), (a + "C(=O)OC", a + "CO.CO", 4),
                (a + "C(=O)O", a + "CO.O", 4), (a + "C(=O)Cl", a + "CO.Cl", 4), (a + "C(N)=O", a + "CN.O", 4),
                (a + "C#N", a + "CN", 4), (a + "C=O", a + "CO", 3), (a + "C=O", a + "CO", 1), (a + "C=C", a + "CC", 2),
                (a + "C=O." + a + "C=O", a + "CO." + a + "CO", 4)]
        ox += [(a + "CO", a + "C=O.O", 1), (a + "C(O)C", a + "C(=O)C.O", 1), (a + "C=O", a + "C(=O)O", 1),
               (a + "CO", a + "C(=O)O.O", 2), (a + "CO", a + "C(=O)O", 1), (a + "CO." + a + "CO", a + "C=O." + a + "C=O.O.O", 2),
               (a + "CS", a + "CS=O", 1)]
    for l, r, n in red:
        for neutralize in (False, True):
            rsmi = l + "".join([".[H]"] * n) + ">>" + r
            cls = (CurationReduction.find_reduction_pattern(rsmi) or ["<none>"])[0]
            names = compounds_template["reduction"].get(cls, compounds_template["reduction"]["other"])
            try:
                outs, _ = CurationReduction.process_reduct_template(rsmi, compounds_template, reaction_templates, neutralize)
                raised = ""
            except Exception as ex:
                outs, raised = [], repr(ex)
            variant = "neutral" if neutralize else "ion"
            for k, o in enumerate(outs):
                changed = o != rsmi
                ol, orr = o.split(">>")
                name = names[k] if changed and k < len(names) else ""
                t = tpl(reaction_templates["reduction"][name][variant]) if name else {"reactants": [], "products": [], "text": ""}
                add({"ev": "apply", "kind": "reduction", "mode": "per_pair", "cls": cls, "name": name, "variant": variant,
                     "n": n, "l": side_comp(l.split(".")), "r": side_comp(r.split(".")), "t": t, "changed": changed,
                     "out_l": side_comp(ol.split(".")), "out_r": side_comp(orr.split(".")), "input": rsmi, "output": o,
                     "raised": raised})
            if raised:
                add({"ev": "apply", "kind": "reduction", "mode": "per_pair", "cls": cls, "name": "", "variant": variant, "n": n,
                     "l": side_comp(l.split(".")), "r": side_comp(r.split(".")), "t": {"reactants": [], "products": [], "text": ""},
                     "changed": False, "out_l": {}, "out_r": {}, "input": rsmi, "output": "", "raised": raised})
    for l, r, n in ox:
        rsmi = l + "".join([".[O]"] * n) + ">>" + r
        pat = CurationOxidation.find_oxidation_pattern(rsmi)
        cls = pat[0] if pat else "<none>"
        names = compounds_template["oxidation"].get(cls, compounds_template["oxidation"]["other"])
        try:
            outs, _ = CurationOxidation.process_ox_template(rsmi, compounds_template, reaction_templates)
            raised = ""
        except Exception as ex:
            outs, raised = [], repr(ex)
        for k, o in enumerate(outs):
            changed = o != rsmi
            ol, orr = o.split(">>")
            name = names[k] if changed and k < len(names) else ""
            t = tpl(reaction_templates["oxidation"][name]) if name else {"reactants": [], "products": [], "text": ""}
            add({"ev": "apply", "kind": "oxidation", "mode": "per_atom" if cls in PER_ATOM else "once", "cls": cls, "name": name,
                 "variant": "", "n": n, "l": side_comp(l.split(".")), "r": side_comp(r.split(".")), "t": t, "changed": changed,
                 "out_l": side_comp(ol.split(".")), "out_r": side_comp(orr.split(".")), "input": rsmi, "output": o,
                 "raised": raised})
    common.write_ndjson(out_file, ev)
    print(json.dumps({"template_events": sum(1 for e in ev if e["ev"] == "table"),
                      "apply_events": sum(1 for e in ev if e["ev"] == "apply")}))


if __name__ == "__main__":
    main()
