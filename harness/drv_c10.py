"""C10 driver: (a) every table enumerated by TLC through the real
get_largest_condition, (b) real MCSSearch.find on mixed batches with oracle
facts about what each row received."""
import copy
import json
import logging
import random
import sys

from rdkit import Chem

from harness import oracle, common, corpus, gen

from synrbl.mcs_search import MCSSearch
from synrbl.SynProcessor import CheckCarbonBalance
from synrbl.SynMCSImputer.SubStructure.extract_common_mcs import ExtractMCS
from synrbl.SynMCSImputer.SubStructure.mcs_process import ensemble_mcs


def smarts_for(tot, first):
    if tot == 0:
        return []
    pats = []
    if first == 0:
        pats.append("")
        rest = tot
    else:
        pats.append("-".join(["[#6]"] * first))
        rest = tot - first
    if rest > 0:
        pats.append("-".join(["[#6]"] * rest))
    return pats


def rand_pattern(n, rng):
    """a SMARTS with exactly n atoms in the style of rdFMCS output (atomic numbers, explicit bonds, optional ring)"""
    if n == 0:
        return ""
    atoms = [rng.choice(["[#6]", "[#6]", "[#6]", "[#7]", "[#8]", "[#16]", "[#17]", "[#6&R]", "[#6,#7]"]) for _ in range(n)]
    ring = n >= 5 and rng.random() < 0.5
    out = []
    for k, a in enumerate(atoms):
        if k:
            out.append(":" if ring and k < 6 else rng.choice(["-", "-", "=", "~"]))
        out.append(a)
        if ring and k == 0:
            out.append("1")
        if ring and k == min(n, 6) - 1:
            out.append(":1" if False else "1")
    return "".join(out)


def patterns_for(sizes, rng):
    """patterns for one entry; two equivalents of a reactant give the same pattern text twice"""
    memo = {}
    out = []
    for z in sizes:
        if z not in memo or rng.random() < 0.4:
            memo[z] = rand_pattern(z, rng)
        out.append(memo[z])
    return out


def rand_table(rng):
    """a table well outside the TLC bound: 2-5 conditions, 1-7 reactions, 0-5 patterns of 0-16 atoms per entry,
    ties made likely, sometimes conditions of unequal length"""
    ncond, nrx = rng.randint(2, 5), rng.randint(1, 7)
    base = [[rng.choice([0, 1, 2, 3, 5, 8, 10, 12, 16]) for _ in range(rng.randint(0, 5))] for _ in range(nrx)]
    conds = []
    for c in range(ncond):
        n = nrx if rng.random() < 0.85 else rng.randint(1, nrx)
        cond = []
        for p in range(n):
            r = rng.random()
            sizes = list(base[p])
            if sizes and rng.random() < 0.3:
                sizes.insert(rng.randrange(len(sizes) + 1), rng.choice(sizes))   # a second equivalent
            if r < 0.35:
                pass                                  # identical -> full tie
            elif r < 0.6:
                rng.shuffle(sizes)                    # same total, other first pattern
            elif r < 0.8 and sizes:
                j = rng.randrange(len(sizes))
                sizes[j] = max(0, sizes[j] + rng.choice([-2, -1, 1, 2]))
            else:
                sizes = [rng.choice([0, 1, 4, 7, 11, 15]) for _ in range(rng.randint(0, 5))]
            cond.append({"id": p + 1, "sizes": sizes, "tot": sum(sizes), "first": sizes[0] if sizes else 0})
        conds.append(cond)
    return conds


def natoms(p):
    if not p:
        return 0
    m = Chem.MolFromSmarts(p)
    return m.GetNumAtoms() if m is not None else 0


def prepare(reactions, solved_flags):
    data = []
    for k, (rxn, sv) in enumerate(zip(reactions, solved_flags)):
        l, r = rxn.split(">>")
        entry = {"id": str(k), "reaction": rxn, "solved": sv, "reactants": l, "products": r, "input_reaction": rxn}
        chk = CheckCarbonBalance([entry], rsmi_col="reaction", symbol=">>", atom_type="C", n_jobs=1)
        entry["carbon_balance_check"] = chk.check_carbon_balance()[0]["carbon_balance_check"]
        data.append(entry)
    return data


def main():
    tables_file, out_file, tier, seed = sys.argv[1], sys.argv[2], sys.argv[3], int(sys.argv[4])
    logging.disable(logging.CRITICAL)
    rng = random.Random(seed)
    ev = []

    def add(e):
        e["id"] = len(ev) + 1
        ev.append(e)

    with open(tables_file) as f:
        tables = json.load(f)
    nbig = 400 if tier == "quick" else 6000
    tables = tables + [rand_table(rng) for _ in range(nbig)]
    for conds in tables:
        real = []
        for c, cond in enumerate(conds, 1):
            real.append([{"id": "r%d" % e["id"],
                          "mcs_results": (patterns_for(e["sizes"], rng) if "sizes" in e
                                          else smarts_for(e["tot"], e["first"])),
                          "sorted_reactants": ["C" * max(1, e["tot"])], "issue": "", "_tag": [c, p]}
                         for p, e in enumerate(cond, 1)])
        res = ExtractMCS.get_largest_condition(*real)
        result = []
        for r in res:
            tag = r.get("_tag") if isinstance(r, dict) else None
            result.append({"cond": tag[0], "pos": tag[1]} if tag else {"cond": 0, "pos": 0})
        add({"ev": "table", "conds": [[{"id": e["id"], "tot": e["tot"], "first": e["first"]} for e in cond] for cond in conds],
             "result": result})

    # real searches on mixed batches
    pool = corpus.small_fast(corpus.unbalanced_reactions() + corpus.plain_reactions(), max_heavy=24)
    fixed = ["CC(=O)OCC>>CCO", "BrBr>>Cl", "CC(=O)OC>>CC(=O)O", "CCO>>CCO", "CC>>CCC", "CS(=O)(=O)OC.CC(=O)OC>>CC(=O)O",
             "COC(=O)c1ccccc1.N>>NC(=O)c1ccccc1", "c1ccccc1C(=O)Cl.OC>>c1ccccc1C(=O)OC", "CCC=O>>CCC=C(C)C=O",
             "OC(=O)CCC(=O)O>>O=C1CCC(=O)O1", "CC(C)(C)OC(=O)NCC>>NCC",
             # three and more molecules, duplicated molecules, molecules of equal size, products side richer
             "CCO.CCO.CC(=O)OC>>CC(=O)OCC", "CC(=O)Cl.OCC.NCC.CCBr>>CC(=O)OCC.CC(=O)NCC", "CCCO.CCCN.CCCS.CCCCl>>CCCOCCC",
             "CCO>>CC(=O)OCC.CC(=O)OCC.CCOC(C)=O", "c1ccccc1Br.c1ccccc1Br.OB(O)c1ccccc1>>c1ccc(cc1)-c1ccccc1",
             "CC(C)O.CC(C)N.CC(C)S>>CC(C)OC(C)C.N", "CCN.CCN.CCN.CCN>>CCNCC", "OCC.OCC>>CCOCC.CCOCC.O",
             # one very hard molecule pair next to cheap ones: RDKit cancels the pairwise search inside the job
             # (different pentacyclic skeletons), the job itself succeeds
             "CC(=C)C1CCC2(CCC3(C)C(CCC4C5(C)CCC(OC(C)=O)C(C)(C)C5CCC34C)C12)C(O)=O.CCCCCCCCN>>"
             "CCCCCCCCNC(=O)C12CCC(C)(C)CC1C1=CCC3C4(C)CCC(O)C(C)(C)C4CCC3(C)C1(C)CC2",
             "CC(=C)C1CCC2(CCC3(C)C(CCC4C5(C)CCC(OC(C)=O)C(C)(C)C5CCC34C)C12)C(O)=O.CCCCCCCCN.CCO>>"
             "CCCCCCCCNC(=O)C12CCC(C)(C)CC1C1=CCC3C4(C)CCC(O)C(C)(C)C4CCC3(C)C1(C)CC2"]
    nb, bsz = (4, 24) if tier == "quick" else (40, 40)
    # ONE searcher object for all batches, as Balancer keeps one for all batches of a call: the fixed reactions recur
    # in every batch at other positions (ids restart per batch)
    searcher = MCSSearch("id", solved_col="solved", mcs_data_col="mcs", issue_col="issue", n_jobs=8)
    for b in range(nb):
        rx = list(fixed) + corpus.sample(pool, bsz, rng)
        seen = set()
        rx = [s for s in rx if oracle.reaction_facts(s)["parses"] and not (s in seen or seen.add(s))]
        rng.shuffle(rx)
        flags = [oracle.balanced(s) is True or (rng.random() < 0.1) for s in rx]
        rows = prepare(rx, flags)
        unsolved = [copy.deepcopy(r) for r in rows if not r["solved"]]
        cond_results = ensemble_mcs(unsolved, searcher.conditions, id_col="id", issue_col="issue", n_jobs=8)
        totals = {}
        timing = {}
        for cres in cond_results:
            for ent in cres:
                totals.setdefault(ent["id"], []).append(sum(natoms(p) for p in ent["mcs_results"]))
                if "timeout" in ent.get("issue", "").lower():
                    timing[ent["id"]] = True
        crashed = ""
        try:
            searcher.find(rows)
        except Exception as ex:      # an exception of the call under test is an observation
            crashed = repr(ex)[:200]
        for r in rows:
            has_key = "mcs" in r
            m = r.get("mcs")
            e = {"ev": "search", "batch": b, "row": r["id"], "reaction": r["reaction"], "solved_before": r["solved"],
                 "has_key": has_key, "has_mcs": m is not None and has_key, "totals": totals.get(r["id"], [0]),
                 "timing": bool(timing.get(r["id"], False)), "id_matches": True, "bag_ok": True, "nmol": 0, "npat": 0,
                 "contained": [], "sel_total": 0, "issue": r.get("issue", ""), "crashed": crashed}
            if e["has_mcs"]:
                side = r["products"] if r["carbon_balance_check"] == "reactants" else r["reactants"]
                want = oracle.side_components(side)
                got = []
                for s in m.get("sorted_reactants", []):
                    mm = oracle.parse(s)
                    got.append(oracle.ident(mm) if mm is not None else "?" + s)
                e["id_matches"] = m.get("id") == r["id"]
                e["bag_ok"] = want is not None and sorted(got) == want
                e["nmol"] = len(m.get("sorted_reactants", []))
                e["npat"] = len(m.get("mcs_results", []))
                cont = []
                for s, p in zip(m.get("sorted_reactants", []), m.get("mcs_results", [])):
                    if not p:
                        cont.append(True)
                        continue
                    mol, q = oracle.parse(s), Chem.MolFromSmarts(p)
                    cont.append(bool(mol is not None and q is not None and mol.HasSubstructMatch(q)))
                e["contained"] = cont
                e["sel_total"] = sum(natoms(p) for p in m.get("mcs_results", []))
                if "timeout" in (m.get("issue") or "").lower():
                    e["timing"] = True
            add(e)
    common.write_ndjson(out_file, ev)
    srch = [e for e in ev if e["ev"] == "search"]
    print(json.dumps({"events": len(ev), "tables": len(tables), "searched_rows": len(srch),
                      "rows_with_mcs": sum(1 for e in srch if e["has_mcs"]),
                      "rows_excluded_for_timing": sum(1 for e in srch if e["timing"])}))


if __name__ == "__main__":
    main()
