"""C07 driver: calls the real decompose / compare / carbon-balance functions
and writes what they returned, next to oracle facts, as an ndjson log."""
import copy
import json
import random
import sys

from rdkit import Chem

from harness import oracle, corpus, common, gen

from synrbl.SynProcessor import RSMIDecomposer, RSMIComparator, BothSideReact, CheckCarbonBalance
from synrbl.SynMCSImputer.utils import is_carbon_balanced


def atoms_of(smiles):
    m = oracle.parse(smiles)
    if m is None:
        return None
    return [{"s": a.GetSymbol(), "h": a.GetTotalNumHs(), "q": a.GetFormalCharge()} for a in m.GetAtoms()]


def main():
    pairs_file, out_file, tier, seed = sys.argv[1], sys.argv[2], sys.argv[3], int(sys.argv[4])
    rng = random.Random(seed)
    ev = []
    n = 0

    def add(e):
        nonlocal n
        n += 1
        e["id"] = n
        ev.append(e)

    # --- spec -> code: every pair enumerated by TLC -------------------------
    with open(pairs_file) as f:
        pairs = json.load(f)
    for r, p in pairs:
        verdict = RSMIComparator.compare_dicts(dict(r), dict(p))
        diff = RSMIComparator.diff_dicts(dict(r), dict(p))
        bs = BothSideReact([dict(r)], [dict(p)], [verdict], [dict(diff)])
        bs_diff, bs_u = bs.fit(n_jobs=1)
        add({"ev": "compare", "r": r, "p": p, "verdict": verdict, "diff": diff,
             "bs_diff": bs_diff[0], "bs_u": bs_u[0]})

    # --- larger dictionaries than the exhaustive bound: many keys, two-digit counts, charges of magnitude >= 3 ---
    ELS = ["C", "H", "O", "N", "S", "Cl", "Ca", "Br", "P", "Si", "Na", "B"]
    for _ in range(400 if tier == "quick" else 6000):
        ks = rng.sample(ELS, rng.randint(2, 8))
        r = {k: rng.choice([1, 2, 3, 9, 10, 11, 12, 25, 99, 100, 127, 128, 255, 256, 300]) for k in ks if rng.random() < 0.85}
        mode = rng.random()
        if mode < 0.3:
            p = dict(r)
        elif mode < 0.6:
            p = {k: max(0, v + rng.choice([-11, -10, -1, 0, 0, 1, 10, 12])) for k, v in r.items()}
            p = {k: v for k, v in p.items() if v > 0}
        else:
            ks2 = rng.sample(ELS, rng.randint(1, 8))
            p = {k: rng.choice([1, 2, 10, 15, 100, 130, 260]) for k in ks2}
        q1, q2 = rng.choice([0, 0, 0, 1, -1, 3, -3, 4]), rng.choice([0, 0, 0, 1, -1, 3, -3, 4])
        if rng.random() < 0.5:
            q2 = q1
        if q1:
            r["Q"] = q1
        if q2:
            p["Q"] = q2
        # random key order (the functions must not depend on it)
        r = dict(sorted(r.items(), key=lambda kv: rng.random()))
        p = dict(sorted(p.items(), key=lambda kv: rng.random()))
        verdict = RSMIComparator.compare_dicts(dict(r), dict(p))
        diff = RSMIComparator.diff_dicts(dict(r), dict(p))
        bs = BothSideReact([dict(r)], [dict(p)], [verdict], [dict(diff)])
        bs_diff, bs_u = bs.fit(n_jobs=1)
        add({"ev": "compare", "r": r, "p": p, "verdict": verdict, "diff": diff, "bs_diff": bs_diff[0], "bs_u": bs_u[0]})

    # --- code -> spec: decompose on corpus molecules and the periodic table --
    nmol = 1500 if tier == "quick" else 20000
    mols = corpus.molecules(limit=nmol, rng=rng) + corpus.element_forms()
    extra = ["[H][H]", "[2H]O[2H]", "[NH4+].[Cl-]", "C[N+](C)(C)CC(=O)[O-]", "[Na+].[OH-]", "O=[U+2]=O",
             "[Th]", "[U]", "[Pu](F)(F)(F)F", "[13CH4]", "[H+]", "[H-]", "c1ccccc1", "C1=CC=CC=C1",
             "[Fe+3].[Cl-].[Cl-].[Cl-]", "[O-][N+](=O)c1ccccc1", "CS(C)=O", "[SiH4]", "B(O)(O)c1ccccc1",
             "[Al+3]", "[O-]P(=O)([O-])[O-]", "[Ti+4]", "[N-3]", "[Ca+2].[Ca+2].[Ca+2].[O-]P(=O)([O-])[O-].[O-]P(=O)([O-])[O-]",
             "ClC(Cl)(Cl)Cl.ClCCl.[Ca+2].[Cl-].[Cl-]", "CCCCCCCCCCCCCCCCCCCCCCCCCCCCCCCCCCCCCCCC", "C" * 130,
             "OCC(O)C(O)C(O)C(O)C(O)C(O)C(O)C(O)C(O)C(O)CO", "[Na+].[Na+].[Na+].[Na+].[Na+].[O-]P(=O)([O-])OP(=O)([O-])OP(=O)([O-])[O-]",
             "Clc1c(Cl)c(Cl)c(Cl)c(Cl)c1Cl", "CaCl", "[Ca]Cl", "[Co]C(=O)", "CO.[Co]", "[Cs]C", "CS.[Cs]", "[Sc]C.CS", "[Sn](C)(C)(C)C",
             # ring-closure digits that span a dot: one molecule although the text has two pieces
             "C1.C1", "C1.Cl1", "OC(=O)C1.N1", "c1ccccc1C2.C2", "C%11.O%11", "C1CC.O1.[Na+].[Cl-]", "C12.C1.C2", "[NH3+]C1.C1(=O)[O-]"]
    mols += extra
    spanning = gen.dot_spanning(rng=random.Random(seed * 13 + 1))
    mols += spanning
    outs = {}
    for s in mols:
        at = atoms_of(s)
        if at is None:
            continue
        out = RSMIDecomposer.decompose(s)
        outs[s] = out
        add({"ev": "decompose", "smiles": s, "atoms": at, "out": out})
    # additivity over mixtures of 2..3 components
    keys = list(outs)
    for _ in range(300 if tier == "quick" else 3000):
        parts = [rng.choice(keys) for _ in range(rng.choice((2, 2, 3, 4, 6, 9)))]
        whole = ".".join(parts)
        add({"ev": "additive", "smiles": whole, "parts": [outs[q] for q in parts],
             "whole": RSMIDecomposer.decompose(whole)})

    # --- compare on real reaction compositions ------------------------------
    rx = corpus.sample(corpus.plain_reactions(), 400 if tier == "quick" else 4000, rng)
    rx += ["CC(=O)[O-]>>CC(=O)O", "[Na+].[Cl-].CCBr>>CCCl", "CCBr.[OH-]>>CCO.[Br-]", "[U]>>[Th]",
           "CC[N+](C)(C)C.[Br-].[Br-]>>CC[N+](C)(C)C.[Br-]", "CCO>>CC(=O)O", "CC=O.[H][H]>>CCO",
           # sides that differ in net charge only (both signs, several units, repeated ions)
           "[I-].[I-]>>II", "C[S-].C[S-]>>CSSC", "O=O>>[O-][O-]", "O=C1C=CC(=O)C=C1>>[O-]c1ccc([O-])cc1",
           "[Cu+].[Cl-].[Cl-]>>[Cu+2].[Cl-].[Cl-]", "[Fe+2]>>[Fe+3]", "[Fe+3]>>[Fe+2]", "CC(=O)O>>CC(=O)[O-]",
           "[O-]P(=O)([O-])[O-]>>OP(=O)(O)O", "[Na+].[Na+].[O-]C(=O)C([O-])=O>>[Na+].[O-]C(=O)C([O-])=O",
           "C[N+](C)(C)C.C[N+](C)(C)C>>C[N+](C)(C)C.CN(C)C.[CH3+]", "[Cl-].[Cl-].[Cl-]>>[Cl-].[Cl-]", "[S-2]>>[S-]",
           "C1.Cl1.O>>CO.Cl", "OC(=O)C1.N1>>NCC(=O)O", "C1.C1>>CC", "CC(=O)OC.C1.C1>>CC(=O)O.CC"]
    # spellings with ring closures across dots (one or several labels, %nn labels): as a balanced reaction with
    # the canonical spelling on the other side, and with one carbon more on either side
    for s in spanning:
        can = Chem.MolToSmiles(Chem.MolFromSmiles(s))
        rx += [s + ">>" + can, can + ">>" + s, s + ">>" + can + ".C", s + ".CC>>" + can]
    cc_in = []
    for s in rx:
        l, r = s.split(">>")
        lc, rc = oracle.comp(l), oracle.comp(r)
        if lc is None or rc is None or l == "" or r == "":
            continue
        rd, pd_ = RSMIDecomposer.decompose(l), RSMIDecomposer.decompose(r)
        verdict = RSMIComparator.compare_dicts(dict(rd), dict(pd_))
        diff = RSMIComparator.diff_dicts(dict(rd), dict(pd_))
        bs = BothSideReact([dict(rd)], [dict(pd_)], [verdict], [dict(diff)])
        bs_diff, bs_u = bs.fit(n_jobs=1)
        # r / p are the ORACLE compositions: the verdict must agree with the truth
        ro = dict(lc[0]); po = dict(rc[0])
        if lc[1]:
            ro["Q"] = lc[1]
        if rc[1]:
            po["Q"] = rc[1]
        add({"ev": "compare", "smiles": s, "r": ro, "p": po, "verdict": verdict, "diff": diff,
             "bs_diff": bs_diff[0], "bs_u": bs_u[0]})
        cc_in.append((s, lc[0].get("C", 0), rc[0].get("C", 0)))
    # --- the batch helper used by the validator and the rule-based stage -----
    # (RSMIDecomposer(data=rows).data_decomposer(): compositions per side for a list of rows)
    rows = []
    for s, _, _ in cc_in:
        l, r = s.split(">>")
        rows.append({"reactants": l, "products": r})
    for par, nj in ((False, 1), (True, 2)):
        dec = RSMIDecomposer(smiles=None, data=[dict(x) for x in rows], reactant_col="reactants", product_col="products",
                             parallel=par, n_jobs=nj, verbose=0)
        rds, pds = dec.data_decomposer()
        for x, rd, pd_ in zip(rows, rds, pds):
            for side, out in ((x["reactants"], rd), (x["products"], pd_)):
                oc, oq = oracle.comp(side)
                truth = dict(oc)
                if oq:
                    truth["Q"] = oq
                add({"ev": "batch_side", "smiles": side, "out": dict(out), "truth": truth, "parallel": par})
        if len(rds) != len(rows) or len(pds) != len(rows):
            add({"ev": "batch_side", "smiles": "<length>", "out": {"n": len(rds)}, "truth": {"n": len(rows)}, "parallel": par})
    # --- carbon labels --------------------------------------------------------
    data = [{"reaction": s} for s, _, _ in cc_in]
    labels = CheckCarbonBalance(data, rsmi_col="reaction", symbol=">>", atom_type="C", n_jobs=1).check_carbon_balance()
    for (s, a, b), lab in zip(cc_in, labels):
        add({"ev": "carbon", "smiles": s, "rc": a, "pc": b, "label": lab["carbon_balance_check"],
             "isbal": bool(is_carbon_balanced(s))})
    common.write_ndjson(out_file, ev)
    print(json.dumps({"events": len(ev), "pairs": len(pairs), "molecules": len(outs)}))


if __name__ == "__main__":
    main()
