"""C04 - decided by API clauses over the shared pipeline recording (see DESIGN.md section 5/C04)."""
from harness import api_props, pipeline_design

CLAUSES = ['BalancedPassThrough', 'OnlyBalancedLabelled']


def run(tier):
    return api_props.run_api_property("C04", tier, set(CLAUSES), design=pipeline_design.design_c04)


def replay(path):
    return api_props.replay_api("C04", path, set(CLAUSES))
