"""Shared pipeline recording for the properties that judge rebalance() results
(C01-C04, C15 output half, C18): one plan per (tree hash, tier, seed), recorded
once, validated once by API_Trace, reused by the per-property checks."""
import fcntl
import json
import os
import random

from harness import common, corpus, gen, oracle


def oracle_parses(rsmi):
    from harness import oracle
    return oracle.reaction_facts(rsmi)["parses"]


def build_plan(tier, seed):
    rng = random.Random(seed * 7919 + 13)
    quick = tier == "quick"
    unb = corpus.unbalanced_reactions()
    exp = [s for s in corpus.expected_reactions()]
    n_unb, n_bal, n_der, n_red = (150, 60, 20, 40) if quick else (1500, 900, 150, 130)
    main = []
    main += corpus.sample(unb, n_unb, rng)
    bal = corpus.sample(exp, n_bal, rng)
    main += bal
    der = gen.derived(exp, rng, n_der)
    for k in ("reverse", "union", "double", "drop_small", "drop_any"):
        main += [s for s in der[k] if s]
    main += gen.redox_triggers(rng, n_red)
    main += [s_ for s_ in gen.element_swaps() if oracle_parses(s_) and (not quick or "Cl" not in s_)]
    main += gen.BALANCED_SPECIAL + gen.UNBALANCED_SPECIAL + gen.marker_inputs()
    main += corpus.sample(corpus.plain_reactions(), 40 if quick else 600, rng)
    # de-duplicate, keep order
    seen = set()
    main = [s for s in main if not (s in seen or seen.add(s))]
    # these drivers are about valid reactions; malformed rows belong to C05
    main = [s for s in main if oracle.reaction_facts(s)["parses"]]
    rng.shuffle(main)
    fast = corpus.small_fast(main)
    runs = [
        # the big mixed set in medium batches (many different batch compositions; a batch in which the
        # pipeline raises does not hide the others), and a part of it as one unbatched call
        {"name": "main", "inputs": main, "form": "list", "batch_size": 25, "n_jobs": 16, "threshold": 0},
        {"name": "main_unbatched", "inputs": corpus.sample(main, 120 if quick else 700, rng), "form": "list",
         "batch_size": None, "n_jobs": 16, "threshold": 0},
        {"name": "batched7", "inputs": corpus.sample(fast, 42 if quick else 300, rng), "form": "dict",
         "batch_size": 7, "n_jobs": 4, "threshold": 0},
        {"name": "solo", "inputs": corpus.sample(fast, 10 if quick else 40, rng), "form": "list",
         "batch_size": 1, "n_jobs": 1, "threshold": 0},
        {"name": "thr500", "inputs": corpus.sample(fast, 40 if quick else 300, rng), "form": "list",
         "batch_size": None, "n_jobs": 16, "threshold": 0.5},
        {"name": "thr1000_b3", "inputs": corpus.sample(fast, 24 if quick else 150, rng), "form": "list",
         "batch_size": 3, "n_jobs": 8, "threshold": 1.0},
    ]
    # homogeneous batches: a call / batch that lacks whole kinds of rows (only balanced, only
    # rule-based, only MCS-based, only declined), alone and as consecutive batches of one call
    kinds = {
        "balanced": [s for s in gen.BALANCED_SPECIAL[:6]] + ["CCO>>CCO", "CC(=O)O.CO>>CC(=O)OC.O"],
        "rule": ["CCBr.[OH-]>>CCO", "CC(=O)Cl.N>>CC(N)=O", "CCN.CC(=O)Cl>>CCNC(C)=O", "CCCl.[Na+].[OH-]>>CCO",
                 "c1ccccc1C(=O)Cl.OC>>c1ccccc1C(=O)OC", "CS(=O)(=O)Cl.CCO>>CCOS(C)(=O)=O"],
        "mcs": ["CC(=O)OCC>>CCO", "CC(=O)OC>>CC(=O)O", "CCC(=O)OC>>CO", "CC(=O)Nc1ccccc1>>Nc1ccccc1",
                "COC(=O)c1ccccc1>>OC(=O)c1ccccc1", "CC(=O)OC(C)C>>CC(C)O"],
        "declined": ["CC>>CCC", "BrBr>>Cl", "C>>CC.C", "CCO>>CCOCC", "[Pu]>>[Am]", "CC(=O)OCC>>CC(=O)[O-].[Cs+]"],
    }
    for k, rx in kinds.items():
        runs.append({"name": "only_" + k, "inputs": rx, "form": "list", "batch_size": None, "n_jobs": 4, "threshold": 0})
    seq = kinds["balanced"][:3] + kinds["mcs"][:3] + kinds["rule"][:3] + kinds["declined"][:3] + kinds["balanced"][3:6]
    runs.append({"name": "homogeneous_batches_b3", "inputs": seq, "form": "dict", "batch_size": 3, "n_jobs": 4, "threshold": 0})
    runs.append({"name": "homogeneous_batches_b3_thr", "inputs": seq, "form": "list", "batch_size": 3, "n_jobs": 4,
                 "threshold": 0.5})
    # rows that already carry the pipeline's own bookkeeping columns (an earlier result fed back in, a CSV with an index
    # column): 'solved', 'id' and 'input_reaction' are (re)computed by every call, whatever arrives in them
    mix = kinds["declined"] + kinds["mcs"][:3] + kinds["rule"][:3] + kinds["balanced"][:3] + \
        ["CCC(=O)OCC>>CCC(=O)O", "CC(=O)OC=C>>CC(=O)O", "CCOC(=O)C>>CC(=O)N",
         # carbon-balanced, one-sided imbalance that no rule completes
         "CP(C)C>>CP(C)(C)=S", "C[Hg]Cl>>CCl", "CCO>>CCO.[Se]", "CC[Se]CC>>CCCC"]
    ids = list(range(len(mix)))
    rng.shuffle(ids)
    fed = [{"reaction": s_, "solved": True, "id": ids[j], "input_reaction": "CCO>>CCO", "note": "n%d" % j}
           for j, s_ in enumerate(mix)]
    runs.append({"name": "refeed_flags", "inputs": fed, "form": "dict", "batch_size": None, "n_jobs": 4, "threshold": 0})
    fed2 = [dict(r_, id="row-%d" % (100 - j), solved=(j % 2 == 0)) for j, r_ in enumerate(fed)]
    # ... and stale values in the columns the stages compute for themselves
    fed3 = [dict(r_, Unbalance="Balance", Diff_formula={"C": 1}, carbon_balance_check="balanced", reactants="C", products="C",
                 new_reaction="C>>C") for r_ in fed]
    runs.append({"name": "refeed_internal", "inputs": fed3, "form": "dict", "batch_size": None, "n_jobs": 4, "threshold": 0})
    runs.append({"name": "refeed_internal_b4", "inputs": fed3, "form": "dict", "batch_size": 4, "n_jobs": 4, "threshold": 0})
    runs.append({"name": "refeed_flags_b4", "inputs": fed2, "form": "dict", "batch_size": 4, "n_jobs": 4, "threshold": 0})
    # the same atom-mapped reaction string several times in one batch (and across batches)
    mp = ["[CH3:1][CH2:2][Br:3].[NH3:4]>>[CH3:1][CH2:2][NH2:4]", "[CH3:1][C:2](=[O:3])[O:4][CH2:5][CH3:6]>>[CH3:6][CH2:5][OH:4]",
          "[CH3:1][CH2:2][OH:3]>>[CH3:1][CH2:2][OH:3]"] + corpus.sample(corpus.small_fast(corpus.mapped_reactions()), 3, rng)
    dup = mp + mp[::-1] + [mp[0], mp[0], mp[2]]
    runs.append({"name": "dup_mapped", "inputs": dup, "form": "list", "batch_size": None, "n_jobs": 4, "threshold": 0})
    runs.append({"name": "dup_mapped_b5", "inputs": dup, "form": "dict", "batch_size": 5, "n_jobs": 4, "threshold": 0})
    # another name for the reaction column (the shipped validation sets use 'reactions'): every kind of row and
    # every redox class again
    other = kinds["balanced"][:3] + kinds["rule"][:3] + kinds["mcs"][:3] + kinds["declined"][:3] + gen.redox_triggers(rng, 19)
    runs.append({"name": "col_reactions", "inputs": [{"reactions": s_, "note": "x"} for s_ in other], "form": "dict",
                 "reaction_col": "reactions", "batch_size": None, "n_jobs": 8, "threshold": 0})
    runs.append({"name": "col_reactions_b5", "inputs": [{"reactions": s_} for s_ in other], "form": "dict",
                 "reaction_col": "reactions", "batch_size": 5, "n_jobs": 8, "threshold": 0.5})
    # one Balancer object: the mapped rows with atom-map removal switched off, then the SAME rows with the default again
    # (strings this process has not seen before: the map numbers are shifted)
    import re as _re
    dup2 = [_re.sub(r":(\d+)\]", lambda m_: ":%d]" % (int(m_.group(1)) + 100), s_) for s_ in dup]
    runs.append({"name": "maps_kept", "inputs": dup2, "form": "list", "batch_size": None, "n_jobs": 4, "threshold": 0,
                 "remove_aam": False})
    runs.append({"name": "maps_removed_again", "inputs": dup2, "form": "list", "batch_size": None, "n_jobs": 4, "threshold": 0})
    runs.append({"name": "maps_removed_again_b5", "inputs": dup2, "form": "dict", "batch_size": 5, "n_jobs": 4, "threshold": 0})
    # thresholds sitting on a reported confidence (learned from the run "only_mcs" in the same process)
    thr_in = kinds["mcs"] + kinds["rule"][:2] + kinds["balanced"][:2]
    for k in range(3 if quick else 6):
        for mode in ("exact", "typed") + (() if quick else ("above", "below")):
            runs.append({"name": "thr_on_conf_%d_%s" % (k, mode), "inputs": thr_in, "form": "list",
                         "batch_size": None if k % 2 else 4, "n_jobs": 4, "threshold": 0,
                         "threshold_from": {"run": "only_mcs", "k": k * 2 + 1, "mode": mode}})
    # the command line: statistics file next to the output file (valid rows only here; C05 covers the rest)
    cli_rows = [{"rid": "c%d" % j, "reaction": s, "note": "n%d" % j} for j, s in enumerate(seq + kinds["mcs"][3:] + kinds["rule"][3:])]
    runs.append({"name": "cli_unbatched", "inputs": cli_rows, "form": "cli", "batch_size": None, "n_jobs": 4, "threshold": 0})
    runs.append({"name": "cli_b4_thr", "inputs": cli_rows, "form": "cli", "batch_size": 4, "n_jobs": 4, "threshold": 0.5})
    return {"runs": runs}


def record(tier):
    """Returns (log path, list of events, bad list [(event id, clause)], trace stats)."""
    th = common.tree_hash()
    seed = common.seed()
    wd = common.workdir("rec", th, "pipeline_%s_%d" % (tier, seed))
    lock = open(os.path.join(wd, ".lock"), "w")
    fcntl.flock(lock, fcntl.LOCK_EX)
    try:
        log = os.path.join(wd, "results.ndjson")
        done = os.path.join(wd, "done.json")
        if not os.path.exists(done):
            plan = build_plan(tier, seed)
            pf = os.path.join(wd, "plan.json")
            with open(pf, "w") as f:
                json.dump(plan, f)
            if not os.path.exists(log + ".ok"):
                common.run_driver("drv_pipeline", [pf, log], timeout=6 * 3600)
                open(log + ".ok", "w").close()
            n, bad, st = common.validate_trace("API_Trace", log, xmx="12g")
            with open(done, "w") as f:
                json.dump({"n": n, "bad": bad, "st": st}, f)
        with open(done) as f:
            d = json.load(f)
        events = common.read_ndjson(log)
        return log, events, d["bad"], (d["n"], d["st"])
    finally:
        fcntl.flock(lock, fcntl.LOCK_UN)
        lock.close()


def added_molecules(e, mols):
    """Multiset difference out - arg per side as canonical SMILES lists."""
    res = {}
    for side in ("l", "r"):
        a = list(e["arg"][side])
        extra = []
        for m in e["out"][side]:
            if m in a:
                a.remove(m)
            else:
                extra.append(mols.get(str(m), str(m)))
        res[side] = sorted(extra)
        res[side + "_missing"] = sorted(mols.get(str(m), str(m)) for m in a)
    return res


def stage_history(stages_file, run_id, pos):
    """Per-stage projection of one row (reaction string, solved, by, issue)."""
    hist = []
    cur = None
    if not os.path.exists(stages_file):
        return hist
    with open(stages_file) as f:
        for line in f:
            e = json.loads(line)
            if e["ev"] == "run_begin":
                cur = e.get("run")
            elif e["ev"] == "stage" and cur == run_id:
                hist.append(e)
    return hist
