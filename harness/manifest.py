"""Regenerates /verif/MANIFEST.json from the table below (python -m harness.manifest)."""
import json
import os
import subprocess

VERIF = os.path.dirname(os.path.dirname(os.path.abspath(__file__)))

BASELINE_OFF = (
    "cd /repo && env -u SYNRBL_VERIF /venv/bin/python -m pytest -ra -q -p no:cacheprovider "
    "--timeout=900 --continue-on-collection-errors"
)

COMMON_NOTE = (
    "Trusted base: TLC 1.8 + CommunityModules; RDKit as independent oracle (atom symbols, H counts, "
    "charges, canonical identity, substructure search) through entry points synrbl does not use for the "
    "same purpose; the projection code in harness/oracle.py; add-only hooks. TLC proves statements "
    "about the model within the stated bounds; that the code follows the model is observed on the "
    "driver inputs (corpus + generators + TLC-enumerated cases), not proved."
)

# property -> (technique, level text, design section, extra note)
CLAIMED = {
    "C07": (
        "TLA+ model (Composition.tla) checked exhaustively by TLC; TLC-enumerated cases replayed into the "
        "real functions; recorded calls validated by TLC trace specification",
        "TLC enumerates every pair of composition dictionaries over a bounded key set and checks the "
        "transcribed comparator / difference / both-side logic against the mathematical definitions; the "
        "same pairs are fed to the real compare_dicts / diff_dicts / BothSideReact and every recorded "
        "call, plus decompose on corpus molecules and the whole periodic table (atoms taken from the "
        "RDKit oracle), is judged by the TLA+ operators in a total-verdict trace run.",
        "5/C07",
        "",
    ),
}

CLAIMED["C19"] = (
    "TLA+ state machine (RuleDB.tla) checked exhaustively by TLC; every TLC-generated operation history "
    "replayed into the real RuleImputeManager; recorded histories validated by TLC trace specification",
    "TLC explores every operation sequence up to the bound over an alphabet of valid, invalid, duplicate "
    "and charged entries from an empty, a consistent and an inconsistent seed database (invariant + "
    "action properties), each reachable history is replayed into the real manager and the logged "
    "database after every call is compared by TLC with the specification's next state; random longer "
    "histories start from both shipped databases.",
    "5/C19",
    "",
)

_API = ("TLA+ stage machine (Pipeline.tla) checked exhaustively by TLC with untrusted chemistry stages; rows "
        "returned by real rebalance() runs judged by TLC against the API.tla clauses (trace validation)")
_APITXT = ("TLC explores every combination of stage outcomes of the one-row pipeline model (gates, both reverts, "
           "re-check of curated rows, issue life cycle, statistics) and checks the clause in the final state; the "
           "as-built / mutated variants must yield counterexamples. The real pipeline is run on a seeded mix of "
           "corpus, derived (reversed / unioned / doubled / molecule dropped), redox-template, ionic, isotopic, "
           "heavy-element and marker-substring reactions under several batch sizes, worker counts and thresholds; "
           "every returned row is projected by the RDKit oracle (molecule identities, compositions, charges) and "
           "every clause of the property is evaluated on every row by TLC. ")
CLAIMED["C01"] = (_API, _APITXT + "Clause: solved => parses and both sides have identical composition and charge.", "5/C01", "")
CLAIMED["C02"] = (_API, _APITXT + "Clauses: multiset of input molecules contained in the result per side; input_reaction "
                  "is the same molecules without atom maps.", "5/C02", "")
CLAIMED["C03"] = (_API, _APITXT + "Clauses: declined => reaction string equals input_reaction and a non-empty issue; solved => "
                  "method named and issue empty/absent; product-side carbon excess => declined.", "5/C03", "")
CLAIMED["C04"] = (_API, _APITXT + "Clauses: oracle-balanced input => solved, input-balanced, unchanged; input-balanced label => "
                  "oracle-balanced input and nothing added.", "5/C04", "")
CLAIMED["C18"] = (_API, _APITXT + "Clauses: the eight count relations between the stats dictionary of each call and its rows.", "5/C18", "")

CLAIMED["C13"] = (
    "TLA+ stage machine (Pipeline.tla, Confidence action) checked by TLC for all (confidence, threshold) pairs; "
    "families of real runs under many thresholds validated by TLC trace specification (Threshold_Trace.tla)",
    "TLC checks the boundary (>= including equality), independence of the other rows and the demotion issue on the "
    "pipeline model (the strict-comparison mutant must fail). The same inputs are then run for real at threshold 0 "
    "and at every observed confidence value, its 3-decimal rendering and its neighbours one thousandth above and "
    "below, plus 0.5 / 0.999 / 1; TLC compares every row of every run with the threshold-0 reference: confidence and "
    "reaction independent of t, solved iff c >= t (exact comparison of the reported float with the threshold "
    "passed), issue names t, all other rows identical, monotone.",
    "5/C13", "")
CLAIMED["C06"] = (
    "TLA+ model of the id/index plumbing (Plumbing.tla) checked exhaustively by TLC; real runs of the same multiset "
    "in different orders / partitions / worker counts validated against solo runs by TLC (Context_Trace.tla)",
    "TLC checks the attribution invariant of the result routing (id map, skipped positions, positional fragment "
    "analysis) for every batch composition within the bound; the positional-zip mutant must fail. Every reaction is "
    "first processed alone by the real code (reference row and statistics), then the same reactions are run in "
    "seeded permutations with batch sizes 1..n+1/None and 1..16 workers, as lists and dictionaries; TLC compares each "
    "row field by field with the solo reference and each run's statistics with the sum of the solo statistics.",
    "5/C06", "")

CLAIMED["C05"] = (
    "TLA+ model of the batching protocol (Batching.tla) checked exhaustively by TLC; every TLC-enumerated input "
    "layout replayed into real rebalance() calls (list / dict / CSV / JSON) and the CLI; calls validated by TLC "
    "(Batching_Trace.tla)",
    "TLC checks one-row-per-input / order / pass-through alignment / reaction count on the model of the DataLoader "
    "protocol (incl. the trailing empty batch), per-batch pipeline and concatenation for every sequence of "
    "valid / unparsable / separator-less rows and every batch size in the bound; the two as-built variants (row "
    "filtered, batch lost) must fail. Each layout of the bounded model is realised with concrete strings and "
    "executed by the real code through the four source kinds, plus duplicate rows, missing values and "
    "`synrbl run --out-columns` on generated CSVs; TLC checks row count, that row j describes input j (RDKit "
    "identity for valid rows, echoed text for malformed ones), pass-through values and reaction_cnt.",
    "5/C05", "")
CLAIMED["C12"] = (
    "TLA+ history machine (Cache.tla) with crash actions checked exhaustively by TLC; directory states and histories "
    "enumerated by TLC replayed into real cached runs; runs validated against cache-disabled runs by TLC "
    "(Cache_Trace.tla)",
    "TLC explores every history of up to 3 runs over a shared directory (2 batches x 2 configurations, 1-2 batches "
    "per run) with a crash enabled between any two steps of a write and checks that every completed run returns the "
    "no-cache result; the key-without-configuration and in-place/intolerant variants must fail. Reachable directory "
    "states (entries absent / complete / truncated temp file) are materialised from the bytes and file operations "
    "observed in a real write (audit hook) and each is followed by real runs; crash-free multi-run histories "
    "(incl. changed threshold, changed column name, permuted batches) and a byte-prefix sweep of the written file "
    "are executed; TLC compares rows and statistics of every run with the cache-disabled reference.",
    "5/C12", "")

CLAIMED["C08"] = (
    "TLA+ transcription of the rule matcher (RuleMatcher.tla) checked exhaustively by TLC on an abstract database; "
    "real matcher / imputer / constraint calls validated by TLC against the model evaluated on the shipped databases",
    "TLC checks exactness in every element and in charge, positive multiplicities and bounded depth for every "
    "imbalance vector in the bound (the exit test without charge must fail). The real SyntheticRuleMatcher is then "
    "called on all small vectors over the database's elements and charges -2..2 and on random larger ones, for both "
    "shipped databases; TLC recomputes the solution set from the recorded compositions of the loaded database, and "
    "checks every returned completion with the ORACLE compositions of the database SMILES (exact on all keys incl. "
    "Q, positive ratios, database members, no duplicates); every database record's composition is compared with the "
    "oracle composition; single_impute appends exactly the chosen completion to the named side; accepted "
    "RuleConstraint entries carry no banned dihalogen on the product side. Ranking agreement is reported as model "
    "drift only.",
    "5/C08", "")

CLAIMED["C10"] = (
    "TLA+ transcription of the condition selection (MCSSelect.tla) and routing model (Plumbing.tla) checked "
    "exhaustively by TLC; every TLC-enumerated table replayed into the real get_largest_condition; real MCSSearch.find "
    "results validated by TLC (MCSSelect_Trace.tla)",
    "TLC checks on every table of 3 conditions x up to 2 reactions (totals / first-pattern sizes 0..2, unequal list "
    "lengths) that the retained entry has the largest total, order is kept, ids agree, a unique best result is never "
    "dropped (tie-handling mutant must fail), and the attribution invariant of the id routing. Every table of the "
    "replay bound is passed to the real function (SMARTS of the required sizes) and compared by TLC with the model "
    "(drift) and the clauses. Real MCSSearch.find runs on mixed batches (solved rows interleaved, reactions with no "
    "match) are judged with oracle facts: the molecule list equals the carbon-richer side as a multiset, every "
    "pattern is contained in its molecule (HasSubstructMatch), one pattern per molecule, own id, retained total = "
    "maximum over the three conditions (separate ensemble_mcs call).",
    "5/C10", "")
CLAIMED["C11"] = (
    "TLA+ fault/schedule model (Faults.tla) with zombie-write interleavings checked exhaustively by TLC; fault plans "
    "and zombie schedules injected into the real pipeline through guarded hooks; runs validated against the "
    "fault-free run by TLC (Fault_Trace.tla)",
    "TLC explores every assignment of {ok, exception, timeout, timeout+late write} to the (reaction, condition) "
    "search jobs and {ok, exception, timeout} to the analysis jobs of a 2x2 model, with the late write of a timed-out "
    "thread enabled at every later step (2.4M states), and checks: no row lost, every row solved or declined with a "
    "reason, unaffected rows as without faults (the shifting-totals mutant must fail). The real pipeline is run on "
    "two mixed batches (1 and 4 workers) under every single fault, every subset of one reaction's conditions, random "
    "multi-job plans, all-jobs-fail, and (in-process) zombie schedules in which the timed-out search thread is "
    "parked on a gate and released at a chosen point (before selection, after selection, after the search stage, "
    "after imputation ...); TLC checks each run row by row against the fault-free reference.",
    "5/C11", "")

CLAIMED["C17"] = (
    "TLA+ model of the normal form as a stable sort (Normalize.tla) checked exhaustively by TLC; real normalize_smiles / "
    "wc_similarity / benchmark results on families of equivalent spellings validated by TLC (Normalize_Trace.tla)",
    "TLC checks idempotence and invariance under every permutation for all sides of up to 4 molecules drawn from a "
    "set in which two pairs tie on the sort key; the as-built key without a total order must fail. For stereo-free "
    "corpus reactions and isomer sets whose canonical SMILES are anagrams, variants are generated (molecules permuted, "
    "random atom order, kekulised, atom maps added); TLC first confirms from oracle identities that each variant is the "
    "same reaction, then checks idempotence and equality of the normal forms inside each family, similarity exactly 1 "
    "between a reaction and its variants for the three methods, symmetry and range on pairs of different reactions, "
    "and that `synrbl benchmark` counts every solved row whose expected reaction is a respelled permutation as correct.",
    "5/C17", "")

CLAIMED["C15"] = (
    "TLA+ model of the two regular expressions over bracket-atom forms (AtomMap.tla) checked exhaustively by TLC; every "
    "model state rendered as a molecule and passed to the real remove_atom_mapping; corpus / periodic-table inputs and "
    "pipeline outputs validated by TLC (AtomMap_Trace.tla, API_Trace.tla)",
    "TLC enumerates every bracket atom over 40 element symbols (incl. the two-letter symbols sharing a first letter "
    "with an organic-subset symbol), isotope, aromatic spelling, chirality mark, H count 0..4, charge, map class, in "
    "bond contexts 0..6 and checks that (element, isotope, charge, chirality, total H) is preserved and no map "
    "survives - with the valence guard for all forms, and as built for all forms except exactly the hypervalent "
    "hydrides (listed as a known finding). Every non-aromatic model state is rendered in several bond contexts and, "
    "when RDKit accepts it as a closed-shell molecule, passed to the real function; identity with the map-cleared "
    "input is judged by the RDKit oracle and the verdict by TLC, which also compares the model's bracket prediction "
    "(drift). Mapped corpus reactions, random map assignments, the whole periodic table, ring / chiral / isotope "
    "templates and every row of the shared pipeline recording (no ':n' in reaction / input_reaction) are included.",
    "5/C15", "")

CLAIMED["C14"] = (
    "TLA+ models of the composition-only decision logic (Composition.tla) and of the placeholder string surgery at "
    "token level (Constrain.tla) checked exhaustively by TLC; families of equivalent spellings run through the real "
    "pipeline and validated by TLC (Spelling_Trace.tla)",
    "TLC shows that verdict / difference formula are functions of the compositions and that the substring surgery of "
    "RuleConstraint equals whole-token surgery and is independent of the order of the input molecules as long as no "
    "input molecule's text begins with a marker (with such inputs allowed it must fail - the C02 finding). For corpus "
    "and hand-picked reactions (incl. repeated spectator molecules with unequal multiplicities) six to ten equivalent "
    "spellings (canonical, molecules permuted, random atom order, kekulised, atom maps added) are run shuffled in one "
    "batch; TLC first confirms from oracle identities that every variant is the same reaction, then requires every "
    "member to have the verdict and the multiset of added molecules (oracle identity) of the first member whose outcome "
    "is input-balanced or rule-based; families completed with a redox reagent template are compared on the verdict only.",
    "5/C14", "")

CLAIMED["C20"] = (
    "TLA+ model of the standardiser as a rewriting loop (Standardize.tla) checked exhaustively by TLC; real "
    "MoleculeStandardizer calls (and a second application to every output) validated by TLC (Standardize_Trace.tla)",
    "TLC checks on every mix of rewritable and non-rewritable groups that the re-querying loop with a result check never "
    "produces an error string, conserves the atoms and reaches a fixed point (second application = first); the stale "
    "work list without result check must fail. The real class is run on enols in many atom orders, enolates and other "
    "charged oxygen species, gem-diols / hemiketals / hemiacetals / orthoacids, metal alkoxides, molecules and mixtures "
    "with several groups, group-free molecules and corpus molecules, each also respelled with random atom orders; the "
    "oracle supplies composition, charge and identity of input, output and second output and TLC evaluates: returns a "
    "parsable SMILES (no exception), same elements incl. H and same charge, second application returns the same "
    "molecules.",
    "5/C20", "")

CLAIMED["C09"] = (
    "TLA+ model of the merge engine over boundary descriptors and rule tables (Merge.tla) checked exhaustively by TLC "
    "against the shipped tables; real merge() calls on fragments cut by the harness validated by TLC (Merge_Trace.tla)",
    "TLC checks for every pair of boundary descriptors (symbols x neighbour symbols x functional groups x patterns) that "
    "a merge rule always applies, a single-fragment completion is well formed, expansion compounds are carbon free, and "
    "that the pairs NOT merged back by one single bond are exactly those of the two restriction rules and the three "
    "phosphorus / diazo rules. For (molecule, acyclic single bond) pairs from generated molecules and the corpus the "
    "harness cuts the bond with RDKit, builds the CompoundSet as build_compounds does (as molecules and as SMILES with "
    "re-mapped indices, both fragment orders), calls the real merge on both fragments and on each fragment alone, and "
    "TLC checks: no exception, valid molecule, no open attachment point, carbon count conserved, heavy atoms = "
    "fragments + compounds named by the reported expansion rules (rule tables read from the log), original "
    "reconstructed unless a reported rule is a restriction, single-fragment result = fragment bonded to (or, under a "
    "restriction, next to) exactly the compound of the reported expansion rule; the reported rule names are also "
    "compared with the model's first-applicable-rule prediction (drift).",
    "5/C09", "")

CLAIMED["C16"] = (
    "TLA+ graph model with a declarative occurrence relation and a transcription of the recursive matcher "
    "(PatternMatch.tla) checked by TLC over a molecule builder; every built molecule replayed into the real "
    "pattern_match; real is_functional_group answers under renumbering validated by TLC (PatternMatch_Trace.tla)",
    "TLC walks a molecule builder (atoms over C/N/O/S, single/double/triple bonds, valence-pruned, at most one ring "
    "closure) and checks in every state, for every anchor and 25 pattern graphs of the shipped table: every real "
    "occurrence is found, a match is a real occurrence on ring-free molecules (with a ring it must fail: the known "
    "finding), and the answer is identical for every permutation of the atoms. Built molecules are turned into RDKit "
    "molecules directly from the atom / bond lists and passed to the real pattern_match; TLC evaluates Occurs and the "
    "transcription on the logged graphs and compares (soundness, completeness, model drift, and the harness's own "
    "reference matcher). For corpus and hand-picked molecules (fused aromatics, small rings, carbonates, anhydrides ...) "
    "the real is_functional_group is called for all 24 groups at every hetero atom and at the image atom of random "
    "renumberings; TLC checks equality across renumberings and agreement with pattern AND group-atoms AND NOT "
    "anti-pattern computed from reference occurrences.",
    "5/C16", "")

PENDING_REASON = "check not built yet in this round (planned, see DESIGN.md section 5); not claimed until it passes on the unchanged tree"


def main():
    props = []
    with open(os.path.join(VERIF, "properties.jsonl")) as f:
        for line in f:
            if line.strip():
                props.append(json.loads(line)["id"])
    checks = []
    na = []
    extra_na = {}
    p = os.path.join(VERIF, "not_applicable.json")
    if os.path.exists(p):
        extra_na = json.load(open(p))
    for pid in props:
        if pid in CLAIMED:
            tech, text, ref, note = CLAIMED[pid]
            checks.append({
                "property_id": pid,
                "quick_cmd": "./check %s --tier quick" % pid,
                "thorough_cmd": "./check %s --tier thorough" % pid,
                "evidence_file": "/verif/evidence/%s.json" % pid,
                "replay_cmd_template": "./check %s --replay {path}" % pid,
                "engine": "tlc",
                "level_claimed": {"category": "model_checking", "text": text, "design_ref": "DESIGN.md " + ref},
                "level_note": (note + " " if note else "") + COMMON_NOTE,
                "technique": tech,
            })
        else:
            na.append({"property_id": pid, "reason": extra_na.get(pid, PENDING_REASON)})
    try:
        commits = subprocess.run(
            ["git", "-C", "/repo", "log", "--format=%H %s", "--grep=verification hook", "-i"],
            stdout=subprocess.PIPE, text=True).stdout.strip().splitlines()
        commits = [c.split()[0] for c in commits]
    except Exception:
        commits = []
    man = {
        "version": 1,
        "setup_cmd": "./setup.sh",
        "hooks": {
            "guard": "SYNRBL_VERIF",
            "enable": "SYNRBL_VERIF=1 PYTHONPATH=/repo (pure Python, nothing to build; optional "
                      "SYNRBL_VERIF_TRACE / SYNRBL_VERIF_FAULTS / SYNRBL_VERIF_GATES name the trace file, "
                      "fault plan and gate directory)",
            "baseline_off_cmd": BASELINE_OFF,
            "source_commits": commits,
            "add_only": True,
        },
        "engines": [
            {"name": "tlc", "path": "/usr/local/bin/tlc",
             "serves_properties": sorted(CLAIMED),
             "kind_free_text": "TLA+ specifications in /verif/spec checked with TLC: exhaustive design "
                               "models (MC_*.cfg), negative/sensitivity models (Neg_*.cfg) and total-verdict "
                               "trace specifications (*_Trace.tla) over logs recorded from /repo"},
            {"name": "apalache", "path": "/usr/local/bin/apalache-mc",
             "serves_properties": ["C07", "C18"],
             "kind_free_text": "inductive-invariant checks: merge_stats (StatsMergeInd.tla, unbounded integers, any number of "
                               "batches) and CountCache.tla (MC_CountCacheInd.tla: Init => IndInv at "
                               "length 0, IndInv /\\ Next => IndInv' at length 1, arbitrary true-count function) and "
                               "its sensitivity run with a process-wide memo"},
        ],
        "checks": checks,
        "not_applicable": na,
        "notes": "Every check is ./check <id> --tier quick|thorough; exit 0 held / 1 VIOLATION / 2 machinery "
                 "failure. Known genuine defects are listed in /verif/known_findings.json.",
    }
    with open(os.path.join(VERIF, "MANIFEST.json"), "w") as f:
        json.dump(man, f, indent=1)
    print("claimed:", sorted(CLAIMED), "not claimed:", [x["property_id"] for x in na])


if __name__ == "__main__":
    main()
