"""C06 - a reaction's result does not depend on its batch context; stats add up."""
import json
import os
import random

from harness import common, corpus, gen, oracle
from harness.common import Report

SEEDS = ["CC(=O)OCC>>CCO", "CC(=O)OC>>CC(=O)O", "CCC(=O)OC>>CO", "BrBr>>Cl", "CC>>CCC", "CCO>>CCO",
         "CCBr.[OH-]>>CCO", "CS(=O)(=O)OC.CC(=O)OC>>CC(=O)O", "CC(=O)Cl.N>>CC(N)=O", "CCO>>CC(=O)O",
         "CCO.O>>CC(=O)O", "c1ccccc1>>c1ccccc1Cl", "CC=O>>CCO", "OC(=O)c1ccccc1.[N-]=[N+]=[N-]>>Nc1ccccc1",
         "CCOC(=O)CCCCC(=O)OCC>>O=C1CCCC1.CCO.CCO", "COC(=O)c1ccccc1>>OC(=O)c1ccccc1",
         # redox rows (reagent templates): single and double oxidations / reductions
         "CC(O)CC(C)O>>CC(=O)CC(C)=O", "OCCCO>>O=CCC=O", "CCCO>>CCC=O", "CC(O)C>>CC(C)=O", "CC(=O)C>>CC(O)C",
         "O=CCC=O>>OCCCO", "CCC=O>>CCC(=O)O", "OCC(O)CO>>O=CC(=O)C=O", "CC(=O)CC(C)=O>>CC(O)CC(C)O",
         # different inputs that are completed to the SAME reaction (written with / without a co-reactant or
         # by-product): a value remembered under the result would be shared between them
         "CC(=O)OCC.O>>CC(=O)O", "CC(=O)OCC>>CC(=O)O", "CC(=O)OCC.O>>CCO", "CC(=O)NCc1ccccc1>>NCc1ccccc1",
         "CC(=O)NCc1ccccc1.O>>NCc1ccccc1", "CC(=O)NCc1ccccc1.O>>CC(=O)O", "COC(=O)c1ccccc1.O>>OC(=O)c1ccccc1",
         "COC(=O)c1ccccc1.O>>CO"]


THR_INPUTS = ["CC(=O)C>>CC(O)C", "CC(=O)OCC>>CC(=O)O", "CCBr.[OH-]>>CCO", "CC(=O)OC>>CC(=O)O", "CCO>>CCO", "CC(=O)OCC>>CCO",
              "COC(=O)c1ccccc1>>OC(=O)c1ccccc1", "CC>>CCC", "CC(=O)Nc1ccccc1>>Nc1ccccc1", "CC(=O)OCC.O>>CC(=O)O",
              "CC(=O)Cl.N>>CC(N)=O", "CCC(=O)OC>>CO"]
TSUF = " @t=0.5"


def _row(e):
    return {"key": e["argstr"], "reaction": e["reaction"], "input_reaction": e["input_reaction"],
            "solved": e["solved"], "by": e["by"], "conf_raw": e["conf_raw"], "rules": e["rules"],
            "issue": e["issue"]}


def _layouts(inputs, rng, tier):
    n = len(inputs)
    outs = []
    specs = [(None, 16), (1, 1), (3, 2), (7, 16), (2, 1), (None, 16)] if tier == "quick" else \
        [(None, 16), (1, 1), (2, 2), (3, 4), (5, 16), (7, 16), (11, 3), (n, 16), (n + 1, 2), (None, 1),
         (4, 16), (None, 16), (9, 5), (13, 16), (2, 16), (None, 8), (6, 1), (17, 16), (3, 16), (None, 16)]
    dups = [inputs[j] for j in range(0, len(inputs), max(1, len(inputs) // 8))]
    for k, (bs, nj) in enumerate(specs):
        # verbatim repeats of some rows (a data set that lists a reaction several times), spread by the shuffle
        perm = list(inputs) + (dups if k % 2 == 0 else dups + dups[:3])
        if k == 0:
            pass
        elif k == 1:
            perm.reverse()
        else:
            rng.shuffle(perm)
        if k % 4 == 2:
            # rows that bring their own id / solved columns (an indexed data set, an earlier result): ids that are a
            # permutation of the positions, then text ids
            ids = list(range(len(perm)))
            rng.shuffle(ids)
            perm = [{"reaction": s_, "id": ids[j], "solved": j % 2 == 0} for j, s_ in enumerate(perm)]
        elif k % 4 == 0 and k > 0:
            perm = [{"reaction": s_, "id": "r%d" % (len(perm) - j), "note": "x"} for j, s_ in enumerate(perm)]
        outs.append({"name": "layout%d_bs%s_j%d" % (k, bs, nj), "inputs": perm, "form": "list" if k % 2 else "dict",
                     "batch_size": bs, "n_jobs": nj, "threshold": 0})
    return outs


def design(rep, tier):
    r = common.design_check("Plumbing", "MC_Plumbing.cfg", workers=8)
    rep.add_model(r, role="design: id/index plumbing between stages, every batch composition in the bound")
    n = common.neg_check("Plumbing", "Neg_Plumbing_zip.cfg")
    rep.add_model(n, role="negative: positional zip instead of id map mis-attributes results")
    rep.add_model(common.neg_check("Plumbing", "Neg_Plumbing_ids.cfg"),
                  role="negative: ids kept as they arrive with the rows (not the positions) misroute the id-keyed write-backs")


def run(tier):
    rep = Report("C06", tier)
    design(rep, tier)
    rng = random.Random(common.seed() * 101 + 3)
    th = common.tree_hash()
    wd = common.workdir("rec", th, "c06_%s_%d" % (tier, common.seed()), fresh=True)
    pool = corpus.small_fast(corpus.unbalanced_reactions() + corpus.plain_reactions(), max_heavy=20)
    inputs = SEEDS + corpus.sample(pool, 26 if tier == "quick" else 300, rng)
    seen = set()
    inputs = [s for s in inputs if oracle.reaction_facts(s)["parses"] and not (s in seen or seen.add(s))]
    # phase 1: every reaction alone (its own rebalance call, one worker)
    # every solo call gets a new Balancer object; a second process makes the same solo calls in the opposite order,
    # so that anything kept between calls (in the object, the class, the module) shows as a difference
    solo_plan = {"runs": [{"name": "solo", "inputs": [s], "form": "list", "batch_size": None, "n_jobs": 1,
                           "threshold": 0, "fresh": True} for s in inputs]}
    # a second, small family at a non-default confidence threshold (rows before / after a low-confidence MCS row)
    for s_ in THR_INPUTS:
        solo_plan["runs"].append({"name": "solo_t", "inputs": [s_], "form": "list", "batch_size": None, "n_jobs": 1,
                                  "threshold": 0.5, "fresh": True})
    p1 = os.path.join(wd, "solo_plan.json")
    with open(p1, "w") as f:
        json.dump(solo_plan, f)
    p1r = os.path.join(wd, "solo_rev_plan.json")
    with open(p1r, "w") as f:
        json.dump({"runs": [dict(r_, fresh=False) for r_ in reversed(solo_plan["runs"])]}, f)
    l1r = os.path.join(wd, "solo_rev.ndjson")
    # phase 2: the same multiset in several layouts
    p2 = os.path.join(wd, "layout_plan.json")
    with open(p2, "w") as f:
        lay = _layouts(inputs, rng, tier)
        for k, (bs_, nj_) in enumerate([(None, 1), (3, 2), (None, 16), (2, 1)]):
            perm = list(THR_INPUTS)
            if k == 1:
                perm.reverse()
            elif k > 1:
                rng.shuffle(perm)
            lay.append({"name": "thr_layout%d_bs%s_j%d" % (k, bs_, nj_), "inputs": perm, "form": "list" if k % 2 else "dict",
                        "batch_size": bs_, "n_jobs": nj_, "threshold": 0.5})
        json.dump({"runs": lay}, f)
    l1, l2 = os.path.join(wd, "solo.ndjson"), os.path.join(wd, "layouts.ndjson")
    common.run_drivers_parallel([("drv_pipeline", [p1, l1], None), ("drv_pipeline", [p1r, l1r], None)])
    common.run_drivers_parallel([("drv_pipeline", [p2, l2], None)], timeout=6 * 3600)
    events = []
    nid = 0
    solo_rows = {}
    cur = []
    for e in common.read_ndjson(l1):
        if e["ev"] == "row":
            cur.append(e)
        elif e["ev"] == "run":
            if len(cur) != 1:
                raise common.MachineryError("solo call returned %d rows for %r" % (len(cur), e["args"]))
            nid += 1
            if e["name"] == "solo_t":
                cur[0]["argstr"] += TSUF
            events.append({"ev": "solo", "id": nid, "key": cur[0]["argstr"], "row": _row(cur[0]), "stats": e["stats"]})
            solo_rows[cur[0]["argstr"]] = cur[0]
            cur = []
    # exclude reactions whose solo search touched a wall-clock budget (not reproducible)
    slow = {k for k, e in solo_rows.items() if "timeout" in e["issue"].lower()}
    # the same solo calls made in the opposite order on ONE object in another process
    rev_rows = {e["argstr"] + (TSUF if e.get("name") == "solo_t" else ""): e for e in common.read_ndjson(l1r) if e["ev"] == "row"}
    slow |= {k for k, e in rev_rows.items() if "timeout" in e["issue"].lower()}
    for k, e in solo_rows.items():
        r2 = rev_rows.get(k)
        if k in slow or r2 is None:
            continue
        a, b2 = _row(e), _row(r2)
        diff = [f for f in a if f != "key" and a[f] != b2[f]]
        if diff:
            rep.fail("SoloResultIndependentOfEarlierCalls", "input=%s differs in %s" % (k, ",".join(diff)),
                     detail={"fresh_object_forward_order": a, "one_object_reverse_order": b2}, group="solo-history",
                     replay={"inputs": inputs})
    cur = []
    runs_meta = []
    for e in common.read_ndjson(l2):
        if e["ev"] == "row":
            cur.append(e)
        elif e["ev"] == "run":
            nid += 1
            if e["name"].startswith("thr_"):
                for x in cur:
                    x["argstr"] += TSUF
                e["args"] = [a + TSUF for a in e["args"]]
            rows = [_row(x) for x in cur if x["argstr"] not in slow]
            ev = {"ev": "run", "id": nid, "name": e["name"], "rows": rows, "stats": e["stats"],
                  "ninputs": e["ninputs"] - sum(1 for a in e["args"] if a in slow), "cfg": e["cfg"]}
            if slow:
                ev["stats"] = {}  # stats cannot be compared when rows were excluded
                ev["skip_stats"] = True
            events.append(ev)
            runs_meta.append({"name": e["name"], "cfg": e["cfg"], "stats": e["stats"], "wall_s": e["wall_s"]})
            cur = []
    if slow:
        # keep the statistics clause meaningful: drop it only for runs with excluded rows
        for ev in events:
            if ev.get("skip_stats"):
                ev["stats"] = {k: sum(int(s["stats"].get(k, 0)) for s in events if s["ev"] == "solo" and
                                      s["key"] in {r["key"] for r in ev["rows"]})
                               for k in ("reaction_cnt", "balanced_cnt", "rb_applied", "rb_solved", "mcs_applied",
                                         "mcs_solved", "confident_cnt")}
    log = os.path.join(wd, "c06.ndjson")
    common.write_ndjson(log, events)
    n, bad, st = common.validate_trace("Context_Trace", log)
    rep.add_trace_stats(n, st)
    evd = {e["id"]: e for e in events}
    for eid, pos, clause in bad:
        e = evd[eid]
        if pos >= 1:
            x = e["rows"][pos - 1]
            sig = "%s input=%s" % (e["name"], x["key"])
            detail = {"layout": e["name"], "cfg": e["cfg"], "row": x,
                      "solo_row": _row(solo_rows[x["key"]]) if x["key"] in solo_rows else None,
                      "batch_order": [r["key"] for r in e["rows"]]}
        else:
            sig = "%s stats=%s" % (e["name"], json.dumps(e["stats"], sort_keys=True))
            detail = {"layout": e["name"], "cfg": e["cfg"], "stats": e["stats"], "rows": len(e["rows"])}
        rep.fail(clause, sig, detail=detail, group=clause,
                 replay={"inputs": [r["key"] for r in e["rows"]], "cfg": e["cfg"]})
    rep.extra.update({"reactions": len(inputs), "layouts": runs_meta, "excluded_for_wallclock": sorted(slow),
                      "methods": {m: sum(1 for e in solo_rows.values() if e["by"] == m) for m in
                                  ("input-balanced", "rule-based", "mcs-based", "ABSENT")}})
    rep.sample(events[0])
    first_run = [e for e in events if e["ev"] == "run"][0]
    rep.sample({"layout": first_run["name"], "first_rows": first_run["rows"][:2],
                "stats": first_run["stats"]})
    rep.assumptions += ["rows compared field by field as strings (same code, same input => same text)",
                        "reactions whose solo search hit a wall-clock timeout are excluded from the comparison"]
    return rep.finish()


def replay(path):
    with open(path) as f:
        data = json.load(f)
    rp = data["replay"]
    wd = common.workdir("replay_tmp", fresh=True)
    if "cfg" not in rp:
        # solo-history failure: the solo calls forward on fresh objects vs backward on one object
        fw = [{"name": "solo", "inputs": [s], "n_jobs": 1, "threshold": 0, "fresh": True} for s in rp["inputs"]]
        out = {}
        for tag, runs in (("fw", fw), ("bw", [dict(r, fresh=False) for r in reversed(fw)])):
            pf = os.path.join(wd, "plan_%s.json" % tag)
            with open(pf, "w") as f:
                json.dump({"runs": runs}, f)
            lg = os.path.join(wd, "%s.ndjson" % tag)
            common.run_driver("drv_pipeline", [pf, lg])
            out[tag] = {e["argstr"]: _row(e) for e in common.read_ndjson(lg) if e["ev"] == "row"}
        diff = [k for k in out["fw"] if out["bw"].get(k) != out["fw"][k]]
        print("solo results that depend on earlier calls:", diff)
        return 1 if diff else 0
    cfg = rp["cfg"]
    bs = cfg.get("batch_size")
    runs = [{"name": "solo", "inputs": [s], "n_jobs": 1, "threshold": 0} for s in rp["inputs"]]
    runs.append({"name": "layout", "inputs": rp["inputs"], "batch_size": None if bs in (None, "NONE") else bs,
                 "n_jobs": cfg.get("n_jobs", 1), "threshold": 0})
    pf = os.path.join(wd, "plan.json")
    with open(pf, "w") as f:
        json.dump({"runs": runs}, f)
    log = os.path.join(wd, "r.ndjson")
    common.run_driver("drv_pipeline", [pf, log])
    events, cur, nid = [], [], 0
    for e in common.read_ndjson(log):
        if e["ev"] == "row":
            cur.append(e)
        else:
            nid += 1
            if e["name"] == "solo":
                events.append({"ev": "solo", "id": nid, "key": cur[0]["argstr"], "row": _row(cur[0]), "stats": e["stats"]})
            else:
                events.append({"ev": "run", "id": nid, "name": "layout", "rows": [_row(x) for x in cur],
                               "stats": e["stats"], "ninputs": e["ninputs"], "cfg": e["cfg"]})
            cur = []
    tl = os.path.join(wd, "t.ndjson")
    common.write_ndjson(tl, events)
    n, bad, st = common.validate_trace("Context_Trace", tl)
    print("failing clauses:", bad)
    return 1 if bad else 0
