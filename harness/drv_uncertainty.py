"""Driver for the Uncertainty model: every case enumerated by TLC from MC_Uncertainty (and random
longer ones) is turned into the dictionaries the pipeline builds and sent through the real
GraphMissingUncertainty.fit / RefinementUncertainty.fit; what comes back is logged for
Uncertainty_Trace."""
import copy
import json
import random
import sys

from synrbl.SynMCSImputer.MissingGraph.uncertainty_graph import GraphMissingUncertainty
from synrbl.SynMCSImputer.MissingGraph.refinement_uncertainty import RefinementUncertainty

PIECES = ["C", "O", "CC", "N", "CO"]
TOK = {"": [], "x": ["CC"], "y": ["O", "N"], "z": ["CC", None]}


def real_entry(e, rnd):
    b = [None if none else {rnd.choice("CNO"): rnd.randrange(5)} for none in e["b"]]
    s = [None if n == 0 else ".".join(rnd.choice(PIECES) for _ in range(n)) for n in e["s"]]
    failed = not e["b"] and not e["s"]
    return {"smiles": s, "boundary_atoms_products": b,
            "nearest_neighbor_products": [None if x is None else {"C": 1} for x in b],
            "issue": "Find Missing Graph terminated by timeout" if failed else ""}


def certainty(entries, th, rnd, via_default):
    real = [real_entry(e, rnd) for e in entries]
    before = copy.deepcopy(real)
    out, raised, untouched = [], "", True
    try:
        obj = GraphMissingUncertainty(real) if via_default else GraphMissingUncertainty(real, threshold=th)
        res = obj.fit()
        out = [bool(r["Certainty"]) for r in res]
        untouched = len(res) == len(before) and all(
            {k: v for k, v in r.items() if k != "Certainty"} == b0 for r, b0 in zip(res, before))
    except Exception as ex:  # noqa: BLE001
        raised = repr(ex)
    return {"ev": "certainty", "entries": entries, "th": th, "out": out, "raised": raised, "untouched": untouched}


def refine(ids, conds, final, num, rnd, via_default):
    fin = [{"R-id": i, "smiles": list(TOK[final[i]]), "src": 0, "tok": final[i]} for i in ids]
    cs = []
    for c, cond in enumerate(conds):
        rows = [{"R-id": i, "smiles": list(TOK[cond[i]]), "src": c + 1, "tok": cond[i]} for i in ids]
        rnd.shuffle(rows)   # the order of rows inside a condition must not matter
        cs.append(rows)
    out, raised = [], ""
    try:
        obj = RefinementUncertainty(fin, cs)
        res = obj.fit() if via_default else obj.fit(intersection_num=num)
        out = [{"id": r["R-id"], "src": r["src"], "tok": r["tok"]} for r in res]
    except Exception as ex:  # noqa: BLE001
        raised = repr(ex)
    return {"ev": "refine", "ids": ids, "conds": conds, "final": final, "num": num, "out": out, "raised": raised}


def main():
    cases_file, log, tier, seed = sys.argv[1], sys.argv[2], sys.argv[3], int(sys.argv[4])
    rnd = random.Random(seed * 31 + 5)
    with open(cases_file) as f:
        cases = json.load(f)
    events = []
    for c in cases:
        if c["part"] == 1:
            events.append(certainty(c["l"], 2, rnd, via_default=rnd.random() < 0.5))
        else:
            events.append(refine(sorted(c["final"]), c["conds"], c["final"], 2, rnd, via_default=rnd.random() < 0.5))
    # beyond the bound: longer lists, more slots, other thresholds / quorum sizes
    n_extra = 400 if tier == "quick" else 4000
    for _ in range(n_extra):
        n = rnd.randrange(3, 9)
        entries = [{"b": [rnd.random() < 0.5 for _ in range(rnd.randrange(0, 4))],
                    "s": [rnd.randrange(0, 4) for _ in range(rnd.randrange(0, 4))]} for _ in range(n)]
        events.append(certainty(entries, rnd.choice([1, 2, 2, 3]), rnd, via_default=False))
        ids = ["r%d" % k for k in range(rnd.randrange(1, 5))]
        toks = sorted(TOK)
        conds = [{i: rnd.choice(toks) for i in ids} for _ in range(rnd.randrange(0, 6))]
        final = {i: rnd.choice(toks) for i in ids}
        events.append(refine(ids, conds, final, rnd.choice([1, 2, 2, 3]), rnd, via_default=False))
    with open(log, "w") as f:
        for k, e in enumerate(events):
            e["id"] = k + 1
            f.write(json.dumps(e) + "\n")
    print(json.dumps({"uncertainty_events": len(events),
                      "certainty_calls": sum(1 for e in events if e["ev"] == "certainty"),
                      "refine_calls": sum(1 for e in events if e["ev"] == "refine")}))


if __name__ == "__main__":
    main()
