"""C16 - functional-group recognition depends only on the molecular graph."""
import json
import os

from harness import common
from harness.common import Report


def run(tier):
    rep = Report("C16", tier)
    cfg = "MC_PatternMatch.cfg" if tier == "quick" else "MC_PatternMatch_big.cfg"
    res, states = common.tlc_dump_states("MC_PatternMatch", cfg, workers=16, timeout=6 * 3600)
    if not res["ok"]:
        raise common.MachineryError("design model violated: %s" % res["violated"])
    rep.add_model(res, role="design: molecule builder, algorithm = declarative occurrence on ring-free molecules, complete "
                            "everywhere, invariant under every renumbering")
    rep.add_model(common.neg_check("MC_PatternMatch", "Neg_PatternMatch.cfg", workers=16),
                  role="negative: soundness with a ring (branches that meet again are not noticed)")
    rep.exhaustive = True
    th = common.tree_hash()
    wd = common.workdir("rec", th, "c16_%s_%d" % (tier, common.seed()), fresh=True)
    sf = os.path.join(wd, "states.json")
    with open(sf, "w") as f:
        json.dump([s["mol"] for s in states], f)
    log = os.path.join(wd, "c16.ndjson")
    info = json.loads(common.run_driver("drv_c16", [sf, log, tier, common.seed()], timeout=4 * 3600).strip().splitlines()[-1])
    n, bad, st = common.validate_trace("PatternMatch_Trace", log, xmx="12g", timeout=3 * 3600)
    rep.add_trace_stats(n, st)
    events = {e["id"]: e for e in common.read_ndjson(log)}
    drift = 0
    for eid, pos, clause in bad:
        e = events[eid]
        if clause.startswith("DRIFT_"):
            drift += 1
            continue
        if clause.startswith("HARNESS_"):
            raise common.MachineryError("reference matcher disagrees with the TLA+ definition on %s / %s" % (e["smiles"], e["pattern"]))
        if e["ev"] == "pm":
            sig = "pattern_match mol=%s pattern=%s anchor=%d" % (e["smiles"], e["pattern"], pos - 1)
            rep.fail(clause, sig, group=clause, detail={"smiles": e["smiles"], "pattern": e["pattern"], "anchor": pos - 1,
                                                        "real": e["real"], "reference": e["ref"]},
                     replay={"smiles": e["smiles"], "pattern": e["pattern"]})
        else:
            sig = "is_functional_group mol=%s group=%s atom=%d" % (e["smiles"], e["group"], e["atom"])
            rep.fail(clause, sig, group="%s/%s" % (clause, e["group"]),
                     detail={k: e[k] for k in ("smiles", "group", "atom", "real", "renum", "refP", "refG", "refA")},
                     replay={"smiles": e["smiles"], "group": e["group"], "atom": e["atom"]})
    rep.extra.update(info)
    rep.extra["model_drift_count"] = drift
    pm = [e for e in events.values() if e["ev"] == "pm" and any(e["real"])]
    fg = [e for e in events.values() if e["ev"] == "fg" and e["real"]]
    rep.sample({k: pm[0][k] for k in ("smiles", "pattern", "real", "ref")})
    if fg:
        rep.sample({k: fg[0][k] for k in ("smiles", "group", "atom", "real", "renum", "refP", "refA")})
    rep.assumptions += ["reference occurrences come from an independent exact subgraph matcher in the harness, itself checked by "
                        "TLC against the declarative definition on every small molecule",
                        "small molecules that RDKit perceives as aromatic are skipped in the builder replay"]
    return rep.finish()


def replay(path):
    with open(path) as f:
        data = json.load(f)
    print("re-run ./check C16; failing case:", data["replay"])
    return 1
