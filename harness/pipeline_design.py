"""Design-level TLC runs of Pipeline.tla shared by the pipeline properties."""
from harness import common

INV = {
    "C01": ["C01_SolvedBalanced"],
    "C03": ["C03_DeclinedUntouched", "C03_DeclinedHasReason", "C03_SolvedNamesMethod", "C03_CarbonDeficitDeclined"],
    "C04": ["C04_BalancedPassThrough", "C04_OnlyBalancedLabelled"],
    "C13": ["C13_Boundary", "C13_OthersUntouched", "C13_DemotedNamesThreshold"],
    "C18": ["C18_Stats"],
}


def _design(rep, tier, negs=()):
    r = common.design_check("Pipeline", "MC_Pipeline.cfg", workers=8)
    rep.add_model(r, role="design: every stage outcome, all gates and reverts, one row")
    for cfg, why in negs:
        n = common.neg_check("Pipeline", cfg)
        rep.add_model(n, role="negative: " + why)


def design_c01(rep, tier):
    _design(rep, tier, [("Neg_Pipeline_C01.cfg", "without the re-check of curated rows an unbalanced template survives"),
                        ("Neg_Pipeline_incoming.cfg", "a 'solved' value arriving with the input row survives preprocessing")])
    rep.add_model(common.design_check("Pipeline", "MC_Pipeline_incoming.cfg", workers=12, timeout=3000),
                  role="design: rows arriving with solved = TRUE (results fed back in): preprocessing resets the flag")
    templates(rep, tier)


def templates(rep, tier):
    """Reagent templates (Templates.tla): why the re-check exists. The design fact (a neutral template preserves
    balance) is checked on a bounded instance; the shipped tables and the real template functions are judged by
    TLC against the model. Non-neutral shipped templates are listed in the evidence (they rely on the second
    rule-based run and the re-check); a real function that does not do what the model says is model drift."""
    import json
    import os
    rep.add_model(common.design_check("MC_Templates", "MC_Templates_quick.cfg" if tier == "quick" else "MC_Templates.cfg",
                                      workers=12, timeout=3000),
                  role="design (reagent templates): a template that is neutral w.r.t. the placeholders it replaces preserves balance")
    rep.add_model(common.neg_check("MC_Templates", "Neg_Templates.cfg"),
                  role="negative (reagent templates): an arbitrary template does not preserve balance")
    wd = common.workdir("templates_%d" % os.getpid(), fresh=True)
    log = os.path.join(wd, "templates.ndjson")
    info = json.loads(common.run_driver("drv_templates", [log, tier]).strip().splitlines()[-1])
    n, bad, st = common.validate_trace("Templates_Trace", log)
    rep.add_trace_stats(n, st)
    ev = {e["id"]: e for e in common.read_ndjson(log)}
    not_neutral, drift = [], []
    for eid, clause in bad:
        e = ev[eid]
        if clause == "TemplateNeutral":
            not_neutral.append("%s/%s %s%s: %s" % (e["kind"], e["cls"], e["name"], "/" + e["variant"] if e["variant"] else "",
                                                   e["t"]["text"]))
        else:
            drift.append({"clause": clause, "input": e.get("input"), "output": e.get("output"), "raised": e.get("raised")})
    info.update({"shipped_templates_not_neutral": sorted(set(not_neutral)), "model_drift_count": len(drift),
                 "model_drift": drift[:5]})
    rep.extra["reagent_templates_model"] = info
    for d in drift[:3]:
        print("MODEL-DRIFT reagent templates: %s on %s" % (d["clause"], d["input"]))
    import shutil
    shutil.rmtree(wd, ignore_errors=True)


def design_c02(rep, tier):
    from harness import constrain_replay
    _design(rep, tier)
    rep.add_model(common.design_check("Constrain", "MC_Constrain.cfg", workers=8),
                  role="design: substring surgery = whole-token surgery when no input molecule's text begins with a marker")
    rep.add_model(common.neg_check("Constrain", "Neg_Constrain.cfg"), role="negative: marker-prefixed input molecules")
    constrain_replay.run(rep, "C02", {"InputMoleculesKept"})


def design_c03(rep, tier):
    _design(rep, tier, [("Neg_Pipeline_C13.cfg", "strict threshold comparison demotes a row at the default threshold")])


def design_c04(rep, tier):
    _design(rep, tier)


def design_c18(rep, tier):
    import json
    import os
    _design(rep, tier)
    r = common.design_check("StatsMerge", "MC_StatsMerge.cfg", workers=8)
    rep.add_model(r, role="design: per-batch statistics with differing key sets accumulate to the sums, any partition")
    rep.add_model(common.neg_check("StatsMerge", "Neg_StatsMerge.cfg"), role="negative: keys missing in the accumulator are dropped")
    # any number of batches, any counts: the invariant is inductive (Apalache, unbounded integers)
    rep.add_model(common.apalache_check("StatsMergeInd", None, "Init", "IndInv", 0),
                  role="apalache: Init => IndInv (merge_stats: every key holds the sum so far)")
    rep.add_model(common.apalache_check("StatsMergeInd", None, "IndInit", "IndInv", 1),
                  role="apalache: IndInv /\\ Merge => IndInv' for an arbitrary partial dictionary with arbitrary counts")
    rep.add_model(common.apalache_check("StatsMergeInd", None, "IndInit", "IndInv", 1, expect_error=True, next_="NextDrop"),
                  role="apalache negative: dropping keys that the accumulator lacks is not inductive")
    # spec -> code: every batch sequence of the replay bound through the real merge_stats
    res, states = common.tlc_dump_states("StatsMerge", "MC_StatsMerge_replay.cfg", workers=8)
    seqs = []
    seen = set()
    for s in states:
        if s["done"] == 0:
            bs = [({} if b == [] else b) for b in s["batches"]]
            k = json.dumps(bs, sort_keys=True)
            if k not in seen:
                seen.add(k)
                seqs.append(bs)
    wd = common.workdir("statsmerge_%d" % os.getpid(), fresh=True)
    sf, lg = os.path.join(wd, "seqs.json"), os.path.join(wd, "merge.ndjson")
    with open(sf, "w") as f:
        json.dump(seqs, f)
    common.run_driver("drv_c18", [sf, lg])
    n, bad, st = common.validate_trace("StatsMerge_Trace", lg)
    rep.add_trace_stats(n, st)
    ev = {e["id"]: e for e in common.read_ndjson(lg)}
    for eid, clause in bad:
        e = ev[eid]
        rep.fail("StatsAreSumOfBatches", "merge_stats batches=%s" % json.dumps(e["batches"]), group="merge_stats",
                 detail={"batches": e["batches"], "result": e["result"]}, replay={"inputs": [], "clause": "StatsAreSumOfBatches"})
    rep.extra["merge_stats_sequences_replayed"] = len(seqs)
    import shutil
    shutil.rmtree(wd, ignore_errors=True)


def design_c13(rep, tier):
    _design(rep, tier, [("Neg_Pipeline_C13.cfg", "strict threshold comparison (conf > t)")])
