"""Design-level TLC runs of Pipeline.tla shared by the pipeline properties."""
from harness import common

INV = {
    "C01": ["C01_SolvedBalanced"],
    "C03": ["C03_DeclinedUntouched", "C03_DeclinedHasReason", "C03_SolvedNamesMethod", "C03_CarbonDeficitDeclined"],
    "C04": ["C04_BalancedPassThrough", "C04_OnlyBalancedLabelled"],
    "C13": ["C13_Boundary", "C13_OthersUntouched", "C13_DemotedNamesThreshold"],
    "C18": ["C18_Stats"],
}


def _design(rep, tier, negs=()):
    r = common.design_check("Pipeline", "MC_Pipeline.cfg", workers=8)
    rep.add_model(r, role="design: every stage outcome, all gates and reverts, one row")
    for cfg, why in negs:
        n = common.neg_check("Pipeline", cfg)
        rep.add_model(n, role="negative: " + why)


def design_c01(rep, tier):
    _design(rep, tier, [("Neg_Pipeline_C01.cfg", "without the re-check of curated rows an unbalanced template survives")])


def design_c02(rep, tier):
    _design(rep, tier)


def design_c03(rep, tier):
    _design(rep, tier, [("Neg_Pipeline_C13.cfg", "strict threshold comparison demotes a row at the default threshold")])


def design_c04(rep, tier):
    _design(rep, tier)


def design_c18(rep, tier):
    _design(rep, tier)


def design_c13(rep, tier):
    _design(rep, tier, [("Neg_Pipeline_C13.cfg", "strict threshold comparison (conf > t)")])
