"""C17 - benchmark comparison ignores molecule order and SMILES spelling."""
import json
import os

from harness import common
from harness.common import Report


def run(tier):
    rep = Report("C17", tier)
    rep.add_model(common.design_check("MC_Normalize", "MC_Normalize.cfg", workers=8),
                  role="design: stable sort with total key, all sides <= 4 molecules incl. key ties, all permutations")
    rep.add_model(common.neg_check("MC_Normalize", "Neg_Normalize.cfg"), role="negative: key ties leak the input order")
    rep.exhaustive = True
    th = common.tree_hash()
    wd = common.workdir("rec", th, "c17_%s_%d" % (tier, common.seed()), fresh=True)
    log = os.path.join(wd, "c17.ndjson")
    info = json.loads(common.run_driver("drv_c17", [log, tier, common.seed()], timeout=3 * 3600).strip().splitlines()[-1])
    n, bad, st = common.validate_trace("Normalize_Trace", log, xmx="12g")
    rep.add_trace_stats(n, st)
    events = {e["id"]: e for e in common.read_ndjson(log)}
    for eid, clause in bad:
        e = events[eid]
        if clause.startswith("DRIFT_"):
            rep.extra["normal_form_changes_molecules"] = rep.extra.get("normal_form_changes_molecules", 0) + 1
            continue
        if clause.startswith("HARNESS_"):
            raise common.MachineryError("variant generator produced a different reaction: %s" % e["members"][0]["smiles"])
        if e["ev"] == "family":
            m = e["members"]
            diff = [x for x in m if x["out"] != m[0]["out"] or not x["idem"] or not x["out_same_molecules"]]
            sig = "normalize %s" % m[0]["smiles"]
            rep.fail(clause, sig, group=clause,
                     detail={"reaction": m[0]["smiles"], "normal_form": m[0]["out"],
                             "deviating": [{"variant": x["smiles"], "normal_form": x["out"], "idempotent": x["idem"]}
                                           for x in diff[:3]]},
                     replay={"family": [x["smiles"] for x in m]})
        elif e["ev"] == "sim":
            sig = "wc_similarity method=%s a=%s b=%s" % (e["method"], e["a"], e["b"])
            rep.fail(clause, sig, group="%s/%s" % (clause, e["method"]), detail=e, replay={"a": e["a"], "b": e["b"]})
        else:
            rep.fail(clause, "benchmark method=%s" % e["method"], group=clause, detail=e, replay={})
    rep.extra.update(info)
    fam = [e for e in events.values() if e["ev"] == "family"]
    rep.sample({"family_of": fam[0]["members"][0]["smiles"], "variants": [m["smiles"] for m in fam[0]["members"][1:3]],
                "normal_form": fam[0]["members"][0]["out"]})
    sm = [e for e in events.values() if e["ev"] == "sim"]
    rep.sample({k: sm[0][k] for k in ("a", "b", "method", "ab", "ba", "avar")})
    rep.assumptions += ["variants are generated with RDKit (random atom order, kekulised form, added atom maps, permuted "
                        "molecules) and verified by TLC to be the same multiset of molecules per side",
                        "only stereo-free reactions (no @ / \\\\ marks)"]
    return rep.finish()


def replay(path):
    with open(path) as f:
        data = json.load(f)
    print("re-run ./check C17; failing case:", json.dumps(data["replay"])[:600])
    return 1
