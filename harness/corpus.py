"""Shipped data as seeded input pools (read straight from /repo/Data)."""

import csv
import os
import random
import sys

from harness import oracle

REPO = os.environ.get("VERIF_REPO", "/repo")
csv.field_size_limit(sys.maxsize)


def _rows(rel):
    p = os.path.join(REPO, "Data", rel)
    if not os.path.exists(p) or os.path.getsize(p) == 0:
        return []
    with open(p, newline="") as f:
        return list(csv.DictReader(f))


_cache = {}


def validation_rows():
    if "val" not in _cache:
        _cache["val"] = _rows("Validation_set/validation_set.csv")
    return _cache["val"]


def unbalanced_reactions(mapped=False):
    """Reactions of validation_set.csv (atom-mapped spelling when mapped)."""
    out = []
    for r in validation_rows():
        s = r.get("reaction") or ""
        if s.count(">>") == 1:
            out.append(s)
    return out


def expected_reactions():
    """Curated balanced reactions (expected_reaction column), only those the
    oracle confirms as balanced."""
    if "exp" not in _cache:
        out = []
        seen = set()
        for r in validation_rows():
            s = r.get("expected_reaction") or ""
            if s.count(">>") == 1 and s not in seen:
                seen.add(s)
                out.append(s)
        _cache["exp"] = out
    return _cache["exp"]


def plain_reactions():
    """Unmapped reaction strings of the other shipped files."""
    if "plain" not in _cache:
        out = []
        for rel, col in (
            ("Validation_set/Jaworski.csv", "reactions"),
            ("Validation_set/USPTO_diff.csv", "reactions"),
            ("Validation_set/USPTO_random_class.csv", "reactions"),
            ("Validation_set/USPTO_unbalance_class.csv", "reactions"),
            ("Raw_data/Golden/Golden.csv", "reactions"),
        ):
            for r in _rows(rel):
                s = r.get(col) or ""
                if s.count(">>") == 1:
                    out.append(s)
        seen = set()
        _cache["plain"] = [s for s in out if not (s in seen or seen.add(s))]
    return _cache["plain"]


def mapped_reactions():
    if "mapped" not in _cache:
        out = []
        for rel, col in (
            ("Validation_set/golden_dataset.csv", "reactions"),
            ("Raw_data/Golden/Golden.csv", "mapped_rxn"),
            ("Raw_data/Jaworski/complex.csv", "mapped_reaction"),
            ("Raw_data/Jaworski/patent.csv", "mapped_reaction"),
        ):
            for r in _rows(rel):
                s = r.get(col) or ""
                if s.count(">>") == 1 and "#" not in s.split(">>")[0][:3]:
                    out.append(s)
        out += [s for s in unbalanced_reactions() if ":" in s]
        seen = set()
        _cache["mapped"] = [s for s in out if not (s in seen or seen.add(s))]
    return _cache["mapped"]


def molecules(limit=None, rng=None):
    """Distinct molecule strings (textual components) of the corpus."""
    if "mols" not in _cache:
        seen = set()
        out = []
        for s in plain_reactions() + expected_reactions():
            for side in s.split(">>"):
                for tok in side.split("."):
                    if tok and tok not in seen:
                        seen.add(tok)
                        out.append(tok)
        _cache["mols"] = out
    mols = list(_cache["mols"])
    if rng is not None:
        rng.shuffle(mols)
    return mols[:limit] if limit else mols


def sample(pool, n, rng):
    pool = list(pool)
    if n >= len(pool):
        return pool
    return rng.sample(pool, n)


def small_fast(reactions, max_heavy=22):
    """Reactions whose sides are small (fast MCS, far from wall-clock budgets)."""
    out = []
    for s in reactions:
        f = oracle.reaction_facts(s)
        if not f["parses"]:
            continue
        heavy = sum(v for k, v in f["lcomp"].items() if k != "H")
        heavy2 = sum(v for k, v in f["rcomp"].items() if k != "H")
        if max(heavy, heavy2) <= max_heavy and len(f["l"]) <= 3 and len(f["r"]) <= 2:
            out.append(s)
    return out


PERIODIC = [
    "H", "He", "Li", "Be", "B", "C", "N", "O", "F", "Ne", "Na", "Mg", "Al", "Si", "P", "S", "Cl",
    "Ar", "K", "Ca", "Sc", "Ti", "V", "Cr", "Mn", "Fe", "Co", "Ni", "Cu", "Zn", "Ga", "Ge", "As",
    "Se", "Br", "Kr", "Rb", "Sr", "Y", "Zr", "Nb", "Mo", "Tc", "Ru", "Rh", "Pd", "Ag", "Cd", "In",
    "Sn", "Sb", "Te", "I", "Xe", "Cs", "Ba", "La", "Ce", "Pr", "Nd", "Pm", "Sm", "Eu", "Gd", "Tb",
    "Dy", "Ho", "Er", "Tm", "Yb", "Lu", "Hf", "Ta", "W", "Re", "Os", "Ir", "Pt", "Au", "Hg", "Tl",
    "Pb", "Bi", "Po", "At", "Rn", "Fr", "Ra", "Ac", "Th", "Pa", "U", "Np", "Pu", "Am", "Cm", "Bk",
    "Cf", "Es", "Fm", "Md", "No", "Lr", "Rf", "Db", "Sg", "Bh", "Hs", "Mt", "Ds", "Rg", "Cn", "Nh",
    "Fl", "Mc", "Lv", "Ts", "Og",
]


def element_forms():
    """Single-atom species over the whole periodic table: atom, hydride,
    cation, anion, isotope."""
    out = []
    for sym in PERIODIC:
        for tmpl in ("[{s}]", "[{s}H]", "[{s}H2]", "[{s}+]", "[{s}-]", "[{s}+2]", "[3{s}]"):
            smi = tmpl.format(s=sym)
            if oracle.parse(smi) is not None:
                out.append(smi)
    return out
