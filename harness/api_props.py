"""Generic check for the properties decided by API clauses over the shared
pipeline recording."""
import json
import os

from harness import common, pipeline_rec
from harness.common import Report


def run_api_property(prop, tier, clauses, design=None, extra_assumptions=(), nontrivial=None):
    rep = Report(prop, tier)
    if design:
        design(rep, tier)
    log, events, bad, (n, st) = pipeline_rec.record(tier)
    rep.add_trace_stats(n, st)
    ev = {e["id"]: e for e in events}
    with open(log + ".mols.json") as f:
        mols = json.load(f)
    for eid, clause in bad:
        if clause not in clauses:
            continue
        e = ev[eid]
        if e["ev"] == "row":
            add = pipeline_rec.added_molecules(e, mols) if e["arg"]["parses"] and e["out"]["parses"] else {}
            sig = "%s input=%s" % (e["name"], e["argstr"])
            if clause == "OnlyAdds":
                sig = "missing_l=%s missing_r=%s %s" % (add.get("l_missing"), add.get("r_missing"), sig)
            detail = {"input": e["argstr"], "reaction": e["reaction"], "input_reaction": e["input_reaction"],
                      "solved": e["solved"], "by": e["by"], "issue": e["issue"], "conf": e["conf_raw"],
                      "threshold": e["threshold_raw"], "added": add, "run": e["name"]}
            if clause == "OnlyAdds":
                grp = "missing_l=%s missing_r=%s" % (add.get("l_missing"), add.get("r_missing"))
            elif clause == "SolvedBalanced":
                grp = "by=%s added_l=%s added_r=%s" % (e["by"], add.get("l"), add.get("r"))
            else:
                grp = "by=%s solved=%s" % (e["by"], e["solved"])
            rep.fail(clause, sig, detail=detail, group=grp,
                     replay={"inputs": [e["argstr"]], "threshold": float(e["threshold"]) / 1000.0,
                             "clause": clause})
        else:
            sig = "run=%s stats=%s rows=%d inputs=%d" % (e["name"], json.dumps(e["stats"], sort_keys=True),
                                                        e["nrows"], e["ninputs"])
            args = e["args"] if "args" in e else [x["arg"] for x in e.get("inputs", [])]
            rep.fail(clause, sig, detail={"stats": e["stats"], "cfg": e["cfg"], "nrows": e["nrows"],
                                          "ninputs": e["ninputs"], "raised": e.get("raised", "")},
                     group=clause + ("/cli" if e["ev"] == "cli" else ""),
                     replay={"inputs": args, "cfg": e["cfg"], "clause": clause})
    # stage-level conformance of the recorded runs with Pipeline.tla (model drift, not a verdict)
    from harness import stage_trace
    wd = common.workdir("stage_%s_%d" % (prop, os.getpid()), fresh=True)
    sres = stage_trace.validate(log + ".stages.ndjson", wd, limit=None if tier == "thorough" else 700)
    rep.add_trace_stats(sres["rows"], sres["states"])
    rep.extra["stage_histories_validated_against_Pipeline_tla"] = sres["rows"]
    rep.extra["distinct_stage_paths"] = len(sres["paths"])
    rep.extra["stage_paths"] = sres["paths"][:60]
    rep.extra["model_drift_count"] = len(sres["drift"])
    rep.extra["model_drift"] = sres["drift"][:5]
    try:
        from harness import model_coverage
        hist_all = common.read_ndjson(os.path.join(wd, "stage_histories.ndjson"))
        rep.extra["pipeline_model_coverage"] = model_coverage.pipeline_cover(hist_all)
    except common.MachineryError:
        raise
    for d in sres["drift"][:5]:
        print("MODEL-DRIFT property=%s row history is not a behaviour of Pipeline.tla: input=%s stuck before stage %s" %
              (prop, d["input"][:100], d["stuck_before_stage"]))
    if tier == "thorough" and sres["rows"]:
        # binding self-test: a corrupted snapshot must be rejected
        hist = common.read_ndjson(os.path.join(wd, "stage_histories.ndjson"))[:40]
        for h in hist:
            h["stages"][3]["solved"] = not h["stages"][3]["solved"]
        cf = os.path.join(wd, "corrupted.ndjson")
        common.write_ndjson(cf, hist)
        _, reached, _ = common.validate_trace("Pipeline_Trace", cf)
        if not all(r <= 3 for r in reached):
            raise common.MachineryError("Pipeline_Trace accepted corrupted stage histories (binding self-test failed)")
        rep.extra["binding_self_test"] = "40 histories with a flipped 'solved' flag after rb_validate: all rejected at that stage"
    import shutil
    shutil.rmtree(wd, ignore_errors=True)
    rows = [e for e in events if e["ev"] == "row"]
    runs = [e for e in events if e["ev"] in ("run", "cli")]
    lost = sum(max(0, r["ninputs"] - max(r["nrows"], 0)) for r in runs)
    total_in = sum(r["ninputs"] for r in runs)
    rep.extra["valid_input_rows_not_returned"] = lost
    if lost:
        print("ROWS-LOST property=%s %d of %d valid input rows were not returned (pipeline raised in a batch); "
              "the clauses were evaluated on the returned rows only" % (prop, lost, total_in))
    if total_in and lost * 2 > total_in:
        raise common.MachineryError("more than half of the valid input rows were not returned by rebalance(); "
                                    "the property cannot be judged (see C05 / C18 for the lost rows)")
    rep.extra.update({
        "rows_judged": len(rows),
        "runs": [{"name": r["name"], "inputs": r["ninputs"], "rows": r["nrows"], "cfg": r["cfg"],
                  "stats": r["stats"], "wall_s": r.get("wall_s", 0)} for r in runs],
        "clauses": sorted(clauses),
        "by_method": {m: sum(1 for e in rows if e["by"] == m) for m in
                      ("input-balanced", "rule-based", "mcs-based", "ABSENT")},
        "solved_rows": sum(1 for e in rows if e["solved"]),
    })
    if nontrivial:
        rep.extra["distinct_nontrivial"] = len({e["argstr"] for e in rows if nontrivial(e)})
    for e in rows[:2] + [r for r in rows if r["by"] == "mcs-based"][:1] + [r for r in rows if not r["solved"]][:1]:
        rep.sample({"input": e["argstr"], "reaction": e["reaction"], "solved": e["solved"], "by": e["by"],
                    "issue": e["issue"], "conf": e["conf_raw"], "arg_l": e["arg"]["l"], "out_l": e["out"]["l"],
                    "out_lcomp": e["out"]["lcomp"], "out_rcomp": e["out"]["rcomp"]})
    rep.assumptions += ["molecule identity, compositions and charges come from the RDKit oracle",
                        "rows are judged as returned by Balancer.rebalance(output_dict=True)"]
    rep.assumptions += list(extra_assumptions)
    return rep.finish()


def replay_api(prop, path, clauses):
    with open(path) as f:
        data = json.load(f)
    rp = data["replay"]
    wd = common.workdir("replay_tmp", fresh=True)
    cfg = rp.get("cfg", {})
    bs = cfg.get("batch_size")
    plan = {"runs": [{"name": "replay", "inputs": rp["inputs"], "form": "list",
                      "batch_size": None if bs in (None, "NONE") else bs,
                      "n_jobs": cfg.get("n_jobs", 1), "threshold": rp.get("threshold", cfg.get("threshold", 0))}]}
    pf = os.path.join(wd, "plan.json")
    with open(pf, "w") as f:
        json.dump(plan, f)
    log = os.path.join(wd, "r.ndjson")
    common.run_driver("drv_pipeline", [pf, log])
    n, bad, st = common.validate_trace("API_Trace", log)
    bad = [b for b in bad if b[1] in clauses]
    for e in common.read_ndjson(log):
        if e["ev"] == "row":
            print("row:", e["argstr"], "->", e["reaction"], "solved=%s by=%s issue=%s" % (e["solved"], e["by"], e["issue"]))
    print("failing clauses:", bad)
    return 1 if bad else 0
