"""Shared machinery: paths, tree hash, TLC runner, verdict + evidence writer.

Exit codes of a check: 0 = property held on everything explored (listed known
findings are printed as KNOWN-FINDING), 1 = at least one violation that
known_findings.json does not list (VIOLATION line printed), 2 = machinery
failure (never a verdict).
"""

import hashlib
import json
import os
import re
import shutil
import subprocess
import sys
import time

VERIF = os.path.dirname(os.path.dirname(os.path.abspath(__file__)))
REPO = os.environ.get("VERIF_REPO", "/repo")
WORK = os.path.join(VERIF, ".work")
SPEC = os.path.join(VERIF, "spec")
EVID = os.path.join(VERIF, "evidence")
PY = "/venv/bin/python"
GUARD = "SYNRBL_VERIF"
NCPU = os.cpu_count() or 4


class MachineryError(Exception):
    pass


def seed():
    try:
        return int(os.environ.get("VERIF_SEED", "0"))
    except ValueError:
        return 0


def log(*a):
    print("[verif]", *a, file=sys.stderr, flush=True)


# --------------------------------------------------------------------------
# tree hash: every file whose content can change what a driver observes
# --------------------------------------------------------------------------
def _hash_dir(h, root, exts):
    for dp, dn, fn in sorted(os.walk(root)):
        dn[:] = sorted(d for d in dn if d not in ("__pycache__", ".git", ".work"))
        for f in sorted(fn):
            if exts and not f.endswith(exts):
                continue
            p = os.path.join(dp, f)
            h.update(os.path.relpath(p, root).encode())
            try:
                with open(p, "rb") as fh:
                    h.update(fh.read())
            except OSError:
                pass


def tree_hash():
    h = hashlib.sha256()
    _hash_dir(h, os.path.join(REPO, "synrbl"), None)
    _hash_dir(h, os.path.join(REPO, "Data", "Rules"), None)
    _hash_dir(h, os.path.join(VERIF, "harness"), (".py",))
    _hash_dir(h, SPEC, (".tla", ".cfg"))
    return h.hexdigest()[:16]


def workdir(*parts, fresh=False):
    d = os.path.join(WORK, *parts)
    if fresh and os.path.isdir(d):
        shutil.rmtree(d, ignore_errors=True)
    os.makedirs(d, exist_ok=True)
    return d


def prune_work(keep_hash):
    """Remove recordings of other trees so .work does not grow."""
    root = os.path.join(WORK, "rec")
    if not os.path.isdir(root):
        return
    for d in os.listdir(root):
        if d != keep_hash:
            shutil.rmtree(os.path.join(root, d), ignore_errors=True)


# --------------------------------------------------------------------------
# running drivers against the code in /repo (hooks on)
# --------------------------------------------------------------------------
def driver_env(extra=None):
    env = dict(os.environ)
    env["PYTHONPATH"] = REPO + os.pathsep + VERIF
    env[GUARD] = "1"
    env["PYTHONHASHSEED"] = "0"
    env["PYTHONWARNINGS"] = "ignore"
    env["VERIF_REPO"] = REPO
    for k in ("SYNRBL_VERIF_TRACE", "SYNRBL_VERIF_FAULTS", "SYNRBL_VERIF_GATES"):
        env.pop(k, None)
    if extra:
        env.update({k: str(v) for k, v in extra.items()})
    return env


def run_driver(module, args, env=None, timeout=3600, out=None):
    """Run ``python -m harness.<module> args`` with synrbl imported from /repo.
    Returns (returncode, stdout). stderr goes to a log file next to ``out``."""
    cmd = [PY, "-m", "harness." + module] + [str(a) for a in args]
    t0 = time.time()
    errpath = (out or os.path.join(workdir("logs"), module)) + ".stderr"
    with open(errpath, "w") as ef:
        p = subprocess.run(
            cmd,
            cwd=VERIF,
            env=driver_env(env),
            stdout=subprocess.PIPE,
            stderr=ef,
            timeout=timeout,
            text=True,
        )
    log("driver", module, " ".join(str(a) for a in args)[:120], "rc=%d" % p.returncode,
        "%.1fs" % (time.time() - t0))
    if p.returncode != 0:
        tail = ""
        try:
            with open(errpath) as f:
                tail = "".join(f.readlines()[-25:])
        except OSError:
            pass
        raise MachineryError(
            "driver %s failed rc=%d\n%s\n%s" % (module, p.returncode, p.stdout[-2000:], tail)
        )
    return p.stdout


def run_drivers_parallel(jobs, timeout=3600):
    """jobs: list of (module, args, env). Runs them concurrently."""
    procs = []
    for module, args, env in jobs:
        cmd = [PY, "-m", "harness." + module] + [str(a) for a in args]
        errpath = os.path.join(workdir("logs"), "%s.%d.stderr" % (module, len(procs)))
        ef = open(errpath, "w")
        p = subprocess.Popen(cmd, cwd=VERIF, env=driver_env(env), stdout=subprocess.PIPE,
                             stderr=ef, text=True)
        procs.append((p, ef, errpath, module, args))
    outs = []
    t0 = time.time()
    for p, ef, errpath, module, args in procs:
        try:
            so, _ = p.communicate(timeout=max(1, timeout - (time.time() - t0)))
        except subprocess.TimeoutExpired:
            p.kill()
            raise MachineryError("driver %s timed out" % module)
        ef.close()
        if p.returncode != 0:
            with open(errpath) as f:
                tail = "".join(f.readlines()[-25:])
            raise MachineryError("driver %s failed rc=%d\n%s" % (module, p.returncode, tail))
        outs.append(so)
    log("parallel drivers", len(jobs), "%.1fs" % (time.time() - t0))
    return outs


# --------------------------------------------------------------------------
# TLC
# --------------------------------------------------------------------------
TLC_JAR = "/opt/veriftools/tla/tla2tools.jar:/opt/veriftools/tla/CommunityModules-deps.jar"


def _tlc_cmd(module, cfg, workers, metadir, extra, xmx="6g", deque=False):
    cmd = ["java", "-XX:+UseParallelGC", "-Xss256m", "-Xmx" + xmx]   # deep recursive operators over long row lists
    if deque:
        cmd.append("-Dtlc2.tool.queue.IStateQueue=StateDeque")
    cmd += ["-cp", TLC_JAR, "tlc2.TLC", "-workers", str(workers), "-metadir", metadir,
            "-noGenerateSpecTE", "-config", cfg]
    cmd += list(extra or [])
    cmd.append(module)
    return cmd


_STATS = re.compile(r"(\d+) states generated, (\d+) distinct states found")


def run_tlc(module, cfg=None, workers=4, extra=None, env=None, timeout=3600, tag=None,
            expect_violation=False):
    """Run TLC on spec/<module>.tla with spec/<cfg>. Returns a dict with
    ok (no error reported), generated, distinct, stdout, violated (name of the
    violated invariant/property or None)."""
    cfg = cfg or (module + ".cfg")
    metadir = workdir("tlc", (tag or module) + "_%d" % os.getpid(), fresh=True)
    e = dict(os.environ)
    if env:
        e.update({k: str(v) for k, v in env.items()})
    t0 = time.time()
    try:
        p = subprocess.run(_tlc_cmd(module, cfg, workers, metadir, extra), cwd=SPEC, env=e,
                           stdout=subprocess.PIPE, stderr=subprocess.STDOUT, text=True,
                           timeout=timeout)
    except subprocess.TimeoutExpired:
        subprocess.run(["pkill", "-f", metadir])
        raise MachineryError("TLC timed out on %s/%s" % (module, cfg))
    finally:
        shutil.rmtree(metadir, ignore_errors=True)
    out = p.stdout
    m = None
    for m in _STATS.finditer(out):
        pass
    res = {
        "module": module,
        "cfg": cfg,
        "rc": p.returncode,
        "generated": int(m.group(1)) if m else 0,
        "distinct": int(m.group(2)) if m else 0,
        "stdout": out,
        "wall_s": round(time.time() - t0, 2),
        "violated": None,
    }
    mv = re.search(r"Invariant (\S+) is violated|Action property (\S+) is violated|"
                   r"Temporal properties were violated|Assumption .* is false", out)
    if mv:
        res["violated"] = mv.group(1) or mv.group(2) or "property"
    res["ok"] = p.returncode == 0 and "Model checking completed. No error has been found" in out
    log("tlc", module, cfg, "rc=%d" % p.returncode, "gen=%d dist=%d" % (res["generated"], res["distinct"]),
        "%.1fs" % res["wall_s"], ("violated=" + str(res["violated"])) if res["violated"] else "")
    if not res["ok"] and not res["violated"] and not expect_violation:
        raise MachineryError("TLC failed on %s/%s:\n%s" % (module, cfg, out[-3000:]))
    return res


def design_check(module, cfg=None, workers=8, timeout=3600, extra=None):
    """Exhaustive run that must find no error."""
    r = run_tlc(module, cfg, workers=workers, timeout=timeout, extra=extra)
    if not r["ok"]:
        raise MachineryError(
            "design model %s/%s reports %s:\n%s" % (module, r["cfg"], r["violated"], r["stdout"][-3000:])
        )
    return r


def neg_check(module, cfg, workers=4, timeout=3600):
    """Sensitivity run: the as-built / mutated model must violate something."""
    r = run_tlc(module, cfg, workers=workers, timeout=timeout, expect_violation=True)
    if not r["violated"]:
        raise MachineryError("negative model %s/%s found nothing (vacuous invariant?)" % (module, cfg))
    return r


_PRINT = re.compile(r"^<<.*>>$|^\[.*\]$|^\{.*\}$|^\".*\"$")


def tlc_values(stdout):
    """Lines printed by PrintT (values only, one per line, -workers 1)."""
    vals = []
    for line in stdout.splitlines():
        s = line.strip()
        if s and _PRINT.match(s):
            vals.append(s)
    return vals


def parse_tla(s):
    """Parse the TLA+ values TLC prints (sequences, sets, records, strings,
    integers, booleans) into Python objects."""
    pos = 0
    n = len(s)

    def ws():
        nonlocal pos
        while pos < n and s[pos] in " \n\t\r":
            pos += 1

    def val():
        nonlocal pos
        ws()
        if s.startswith("<<", pos):
            pos += 2
            out = []
            ws()
            if s.startswith(">>", pos):
                pos += 2
                return out
            while True:
                out.append(val())
                ws()
                if s.startswith(">>", pos):
                    pos += 2
                    return out
                if s[pos] != ",":
                    raise ValueError("expected , at %d in %r" % (pos, s[max(0, pos - 20):pos + 20]))
                pos += 1
        if s[pos] == "{":
            pos += 1
            out = []
            ws()
            if s[pos] == "}":
                pos += 1
                return out
            while True:
                out.append(val())
                ws()
                if s[pos] == "}":
                    pos += 1
                    return out
                pos += 1
        if s[pos] == "[":
            pos += 1
            out = {}
            ws()
            while True:
                ws()
                m = re.compile(r"[A-Za-z_0-9]+").match(s, pos)
                key = m.group(0)
                pos = m.end()
                ws()
                if not s.startswith("|->", pos):
                    raise ValueError("expected |-> at %d" % pos)
                pos += 3
                out[key] = val()
                ws()
                if s[pos] == "]":
                    pos += 1
                    return out
                pos += 1
        if s[pos] == '"':
            pos += 1
            buf = []
            while s[pos] != '"':
                if s[pos] == "\\":
                    pos += 1
                buf.append(s[pos])
                pos += 1
            pos += 1
            return "".join(buf)
        m = re.compile(r"-?\d+").match(s, pos)
        if m:
            pos = m.end()
            return int(m.group(0))
        m = re.compile(r"TRUE|FALSE").match(s, pos)
        if m:
            pos = m.end()
            return m.group(0) == "TRUE"
        m = re.compile(r"[A-Za-z_][A-Za-z_0-9]*").match(s, pos)
        if m:
            pos = m.end()
            return m.group(0)
        raise ValueError("cannot parse at %d: %r" % (pos, s[pos:pos + 30]))

    v = val()
    return v


def validate_trace(module, trace_file, cfg=None, timeout=3600, xmx="8g", extra_env=None):
    """Run a *_Trace specification over an ndjson log with total verdicts.
    The spec prints, from its POSTCONDITION, a record
    [consumed |-> n, total |-> n, bad |-> <<...>>] ; returns (n_events, bad)
    where bad is a list of sequences <<trace id, clause, detail...>>."""
    cfg = cfg or (module + ".cfg")
    vfile = trace_file + ".verdict.%d.json" % os.getpid()
    env = {"TRACE_FILE": trace_file, "VERDICT_FILE": vfile}
    if extra_env:
        env.update(extra_env)
    metadir = workdir("tlc", module + "_%d" % os.getpid(), fresh=True)
    e = dict(os.environ)
    e.update(env)
    t0 = time.time()
    try:
        p = subprocess.run(_tlc_cmd(module, cfg, 1, metadir, [], xmx=xmx), cwd=SPEC, env=e,
                           stdout=subprocess.PIPE, stderr=subprocess.STDOUT, text=True,
                           timeout=timeout)
    except subprocess.TimeoutExpired:
        raise MachineryError("TLC trace validation timed out on %s" % module)
    finally:
        shutil.rmtree(metadir, ignore_errors=True)
    out = p.stdout
    rec = None
    try:
        with open(vfile) as f:
            rec = json.load(f)
        os.remove(vfile)
    except Exception:
        rec = None
    log("trace", module, os.path.basename(trace_file), "rc=%d" % p.returncode,
        "%.1fs" % (time.time() - t0), "consumed=%s" % (rec and rec.get("consumed")))
    if rec is None or p.returncode != 0 or "No error has been found" not in out:
        raise MachineryError("trace validation %s failed (rc=%d):\n%s" % (module, p.returncode, out[-3000:]))
    if rec["consumed"] != rec["total"]:
        raise MachineryError("trace not fully consumed: %s of %s" % (rec["consumed"], rec["total"]))
    m = None
    for m in _STATS.finditer(out):
        pass
    return rec["total"], rec["bad"], (int(m.group(2)) if m else 0, int(m.group(1)) if m else 0)


# --------------------------------------------------------------------------
# verdicts, known findings, evidence
# --------------------------------------------------------------------------
def load_findings():
    p = os.path.join(VERIF, "known_findings.json")
    if not os.path.exists(p):
        return []
    with open(p) as f:
        data = json.load(f)
    return [e for e in data.get("findings", []) if e.get("status", "open") == "open"]


def match_finding(findings, prop, failure):
    for f in findings:
        if f["property"] != prop:
            continue
        if f.get("clause") and f["clause"] != failure.get("clause"):
            continue
        if f.get("clause_regex") and not re.search(f["clause_regex"], failure.get("clause", "")):
            continue
        pat = f.get("signature_regex")
        if pat and not re.search(pat, failure.get("signature", "")):
            continue
        return f
    return None


class Report:
    """Collects what a check did; finish() prints verdict lines, writes evidence
    and returns the exit code."""

    def __init__(self, prop, tier):
        self.prop = prop
        self.tier = tier if tier in ("quick", "thorough") else "quick"
        self.t0 = time.time()
        self.failures = []  # dicts: clause, signature, detail, replay (dict)
        self.states = 0
        self.transitions = 0
        self.traces = 0
        self.samples = []
        self.extra = {}
        self.assumptions = []
        self.models = []
        self.exhaustive = False

    def add_model(self, res, role="design"):
        self.states += res["distinct"]
        self.transitions += res["generated"]
        self.models.append({"module": res["module"], "cfg": res["cfg"], "role": role,
                            "distinct_states": res["distinct"], "states_generated": res["generated"],
                            "violated": res["violated"], "wall_s": res["wall_s"]})

    def add_trace_stats(self, n_events, st):
        self.traces += n_events
        self.states += st[0]
        self.transitions += st[1]

    def fail(self, clause, signature, detail=None, replay=None, group=None):
        """signature identifies the failing input / call site (matched against
        known findings); group (default: signature) is the mechanism class used
        to print one VIOLATION line per mechanism instead of one per input."""
        self.failures.append({"clause": clause, "signature": signature, "detail": detail,
                              "replay": replay or {}, "group": group or signature})

    def sample(self, s):
        if len(self.samples) < 8:
            self.samples.append(s)

    def finish(self):
        findings = load_findings()
        known = {}
        new = []
        for fl in self.failures:
            f = match_finding(findings, self.prop, fl)
            if f is not None:
                known.setdefault(f["id"], [f, 0])
                known[f["id"]][1] += 1
            else:
                new.append(fl)
        for fid, (f, cnt) in sorted(known.items()):
            print("KNOWN-FINDING: property=%s %s (%s; %d observation(s) this run)" %
                  (self.prop, f["what_fails"], fid, cnt))
        rdir = workdir("replay")
        seen = {}
        nviol = 0
        for fl in new:
            key = (fl["clause"], fl["group"])
            if key in seen:
                seen[key] += 1
                continue
            seen[key] = 1
            nviol += 1
            if nviol > 20:
                continue
            path = os.path.join(rdir, "%s_%s_%d.json" % (self.prop, self.tier, nviol))
            with open(path, "w") as f:
                json.dump({"property": self.prop, "clause": fl["clause"], "signature": fl["signature"],
                           "detail": fl["detail"], "replay": fl["replay"]}, f, indent=1, default=str)
            print("VIOLATION property=%s replay=%s" % (self.prop, path))
            print("  clause=%s signature=%s" % (fl["clause"], str(fl["signature"])[:300]))
            if fl["detail"] is not None:
                print("  detail=%s" % str(fl["detail"])[:600])
        cov = {
            "states": max(1, self.states),
            "transitions": max(1, self.transitions),
            "traces_validated_against_impl": self.traces,
            "samples": self.samples or ["(no sample recorded)"],
            "models": self.models,
            "exhaustive": self.exhaustive,
            "known_findings_hit": sorted(known.keys()),
            "failures_total": len(self.failures),
        }
        cov.update(self.extra)
        ev = {
            "property_id": self.prop,
            "tier": self.tier,
            "seed": seed(),
            "level": "model_checking",
            "coverage": cov,
            "assumptions": self.assumptions,
            "wall_s": round(time.time() - self.t0, 2),
            "violations": nviol,
        }
        os.makedirs(EVID, exist_ok=True)
        tmp = os.path.join(EVID, self.prop + ".json.tmp")
        with open(tmp, "w") as f:
            json.dump(ev, f, indent=1, default=str)
        os.replace(tmp, os.path.join(EVID, self.prop + ".json"))
        if nviol:
            return 1
        print("OK property=%s tier=%s states=%d traces=%d wall=%.0fs" %
              (self.prop, self.tier, self.states, self.traces, time.time() - self.t0))
        return 0


def write_ndjson(path, events):
    with open(path, "w") as f:
        for e in events:
            f.write(json.dumps(e, sort_keys=True) + "\n")


def read_ndjson(path):
    out = []
    with open(path) as f:
        for line in f:
            line = line.strip()
            if line:
                out.append(json.loads(line))
    return out


# --------------------------------------------------------------------------
# TLC state dumps (-dump file): list of {var: value}
# --------------------------------------------------------------------------
def apalache_check(module, cinit, init, inv, length, expect_error=False, timeout=1200, next_=None):
    """apalache-mc check on spec/<module>.tla; returns a model dict like run_tlc. Raises MachineryError when the
    outcome is not the expected one (NoError, or a reported invariant violation for a sensitivity run)."""
    out_dir = workdir("apalache", "%s_%d" % (module, os.getpid()), fresh=True)
    cmd = ["apalache-mc", "check"] + (["--cinit=" + cinit] if cinit else []) + (["--next=" + next_] if next_ else []) + \
          ["--init=" + init, "--inv=" + inv, "--length=%d" % length, "--out-dir=" + out_dir, module + ".tla"]
    t0 = time.time()
    try:
        p = subprocess.run(cmd, cwd=SPEC, stdout=subprocess.PIPE, stderr=subprocess.STDOUT, text=True, timeout=timeout)
    except subprocess.TimeoutExpired:
        raise MachineryError("apalache timed out on %s" % module)
    finally:
        shutil.rmtree(out_dir, ignore_errors=True)
    noerr = "The outcome is: NoError" in p.stdout
    viol = ("state invariant" in p.stdout and "violated" in p.stdout) or "The outcome is: Error" in p.stdout
    log("apalache %s cinit=%s init=%s length=%d -> %s (%.1fs)" % (module, cinit, init, length,
                                                                 "NoError" if noerr else ("violation" if viol else "?"),
                                                                 time.time() - t0))
    if (expect_error and not viol) or (not expect_error and not noerr):
        raise MachineryError("apalache %s %s/%s length %d: unexpected outcome\n%s" % (module, cinit, init, length,
                                                                                      p.stdout[-1500:]))
    return {"module": module, "cfg": "%s/%s/%s/len%d" % (cinit, init, inv, length), "ok": True, "generated": 0, "distinct": 0,
            "violated": inv if viol else None, "engine": "apalache", "wall_s": round(time.time() - t0, 1)}


def tlc_dump_states(module, cfg, workers=4, timeout=3600):
    """Run TLC with -dump and return (result dict, list of states)."""
    d = workdir("dump", fresh=False)
    path = os.path.join(d, "%s_%d" % (module, os.getpid()))
    res = run_tlc(module, cfg, workers=workers, extra=["-dump", path], timeout=timeout)
    fn = path + ".dump"
    states = []
    cur = None
    with open(fn) as f:
        txt = f.read()
    os.remove(fn)
    for block in re.split(r"^State \d+:\s*$", txt, flags=re.M):
        block = block.strip()
        if not block:
            continue
        st = {}
        for conj in re.split(r"^/\\ ", block, flags=re.M):
            conj = conj.strip()
            if not conj:
                continue
            name, val = conj.split(" = ", 1)
            st[name.strip()] = parse_tla(val.strip())
        states.append(st)
    return res, states


# --------------------------------------------------------------------------
# binding self-test: a trace specification must reject a corrupted log
# --------------------------------------------------------------------------
def binding_selftest(rep, module, log, corrupt, n=30, expect_clause=None):
    """Takes up to n events of a recorded (accepted) log for which corrupt(event) returns a
    changed copy, validates the corrupted log and requires every corrupted event to be
    reported. Raises MachineryError when the specification accepts a corrupted event."""
    events = read_ndjson(log)
    header = [e for e in events if e.get("ev") in ("db", "rules", "ref", "solo", "begin")]
    out, ids = [], []
    for e in events:
        if e in header:
            continue
        c = corrupt(json.loads(json.dumps(e)))
        if c is not None:
            out.append(c)
            ids.append(c.get("id"))
        if len(out) >= n:
            break
    if not out:
        return
    path = log + ".corrupted.ndjson"
    write_ndjson(path, header + out)
    _, bad, _ = validate_trace(module, path)
    os.remove(path)
    flagged = {b[0] for b in bad if not str(b[-1]).startswith("DRIFT_")}
    if expect_clause:
        flagged = {b[0] for b in bad if b[-1] == expect_clause or str(b[-1]).startswith(expect_clause)}
    missed = [i for i in ids if i not in flagged]
    if missed:
        raise MachineryError("binding self-test: %s accepted %d of %d corrupted events" % (module, len(missed), len(ids)))
    rep.extra.setdefault("binding_self_tests", []).append(
        "%s: %d corrupted events, all rejected%s" % (module, len(ids), (" (" + expect_clause + ")") if expect_clause else ""))
