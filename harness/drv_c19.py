"""C19 driver: replays TLC-generated operation histories (and seeded random
ones from the shipped databases) into the real RuleImputeManager and logs the
database after every call."""
import contextlib
import copy
import io
import json
import os
import random
import sys

from harness import oracle, common
from synrbl.SynRuleImputer.rule_data_manager import RuleImputeManager


def atoms_of(smiles):
    m = oracle.parse(smiles)
    if m is None:
        return []
    return [{"s": a.GetSymbol(), "h": a.GetTotalNumHs(), "q": a.GetFormalCharge()} for a in m.GetAtoms()]


def snap(db, n_new=None):
    out = []
    for j, d in enumerate(db):
        rec = {"formula": d["formula"], "smiles": d["smiles"]}
        out.append(rec)
    return out


def snap_full(db, old_len):
    out = snap(db)
    for j in range(old_len, len(db)):
        out[j]["comp"] = db[j].get("Composition", {})
        out[j]["atoms"] = atoms_of(db[j]["smiles"])
    return out


def run_history(tid, ops, events, init_db):
    shared = copy.deepcopy(init_db)
    handles = {"A": RuleImputeManager(shared)}
    mgr = handles["A"]
    events.append({"ev": "begin", "tid": tid, "step": 0, "after": snap(mgr.database)})
    for step, op in enumerate(ops, 1):
        # an operation may come through a second manager object created on the SAME list ("via": "B"): the database
        # is one object however many handles edit it
        via = op.get("via", "A")
        if via not in handles:
            if handles["A"].database:
                handles[via] = RuleImputeManager(handles["A"].database)
            else:
                via = "A"     # the constructor does not adopt an EMPTY list (database or []): no shared object yet
        mgr = handles[via]
        old = len(mgr.database)
        sink = io.StringIO()
        with contextlib.redirect_stdout(sink):
            if op["op"] == "add":
                raised, crashed = False, ""
                try:
                    mgr.add_entry(op["formula"], op["smiles"])
                except ValueError:
                    raised = True
                except Exception as ex:
                    raised, crashed = True, repr(ex)
                events.append({"ev": "add", "tid": tid, "step": step, "formula": op["formula"],
                               "smiles": op["smiles"], "valid": oracle.parse(op["smiles"]) is not None, "crashed": crashed,
                               "raised": raised, "after": snap_full(mgr.database, old if not raised else len(mgr.database))})
            elif op["op"] == "bulk":
                ents = [dict(e) for e in op["entries"]]
                # full rule records as they come out of another database: some carry a Composition, stale or
                # without the Q entry; what is stored must be derived from the SMILES
                for j, e_ in enumerate(ents):
                    if (tid + step + j) % 3 == 0:
                        e_["Composition"] = [{"C": 99}, {"H": 2, "O": 1}, {}][(tid + j) % 3]
                crashed = ""
                try:
                    rej = mgr.add_entries([dict(e) for e in ents])
                except Exception as ex:
                    rej, crashed = [], repr(ex)
                for e in ents:
                    e.pop("Composition", None)
                    e["valid"] = oracle.parse(e["smiles"]) is not None
                events.append({"ev": "bulk", "tid": tid, "step": step, "entries": ents,
                               "rejected": [{"formula": r["formula"], "smiles": r["smiles"]} for r in rej], "crashed": crashed,
                               "after": snap_full(mgr.database, min(old, len(mgr.database)))})
            elif op["op"] == "remove":
                crashed = ""
                try:
                    mgr.remove_entry(op["formula"])
                except Exception as ex:
                    crashed = repr(ex)
                events.append({"ev": "remove", "tid": tid, "step": step, "formula": op["formula"], "crashed": crashed,
                               "after": snap(mgr.database)})


def main():
    hist_file, out_file, tier, seed = sys.argv[1], sys.argv[2], sys.argv[3], int(sys.argv[4])
    rng = random.Random(seed)
    events = []
    with open(hist_file) as f:
        hists = json.load(f)
    tid = 0
    for h in hists:
        tid += 1
        init = [dict(formula=e["formula"], smiles=e["smiles"], Composition={}) for e in h[0]["after"]]
        run_history(tid, h[1:], events, init)
    n_tlc = tid
    # random longer histories starting from the two shipped databases
    repo = os.environ.get("VERIF_REPO", "/repo")
    import gzip
    dbs = []
    for p in ("synrbl/SynRuleImputer/rules_manager.json.gz", "Data/Rules/automated_rules.json.gz"):
        fp = os.path.join(repo, p)
        try:
            with gzip.open(fp, "rt") as f:
                dbs.append(json.load(f))
        except OSError:
            with open(fp) as f:
                dbs.append(json.load(f))
    pool = [("H2O", "O"), ("HCl", "Cl"), ("NH3", "N"), ("Cl2", "ClCl"), ("NaCl", "[Na+].[Cl-]"), ("AcOH", "CC(=O)O"),
            ("MeOH", "CO"), ("EtOH", "CCO"), ("Br-", "[Br-]"), ("NH4+", "[NH4+]"), ("SO4", "[O-]S(=O)(=O)[O-]"),
            ("U", "[U]"), ("bad1", "C(C"), ("bad2", "xyz"), ("H2", "[H][H]"), ("D2O", "[2H]O[2H]"),
            ("MeOH", "OC"), ("Methanol", "CO"), ("BH4-", "[BH4-]"), ("Zw", "C[N+](C)(C)CC(=O)[O-]"),
            # strings RDKit accepts with surrounding whitespace (a file read line by line, a padded CSV cell)
            ("EtOH pad", "CCO "), ("ethanol pad", "CCO "), ("aqua", " O"), ("water nl", "O\n"), ("ammonia tab", "N\t"),
            ("EtOH pad2", " CCO")]
    nrand = 40 if tier == "quick" else 600
    for k in range(nrand):
        base = dbs[k % len(dbs)] if k % 3 else []
        ops = []
        for _ in range(rng.randint(6, 14)):
            c = rng.random()
            if c < 0.5:
                f, s = rng.choice(pool)
                ops.append({"op": "add", "formula": f, "smiles": s})
            elif c < 0.7:
                ents = [dict(zip(("formula", "smiles"), rng.choice(pool))) for _ in range(rng.randint(1, 4))]
                ops.append({"op": "bulk", "entries": ents})
            else:
                cand = [p[0] for p in pool] + [d["formula"] for d in base[:10]] + ["Nope"]
                ops.append({"op": "remove", "formula": rng.choice(cand)})
        tid += 1
        run_history(tid, ops, events, base)
    # two handles on one database list: an entry leaves through one handle and another arrives, then the first handle
    # is offered both (the arrived one must be rejected, the departed one accepted), plus random two-handle histories
    n_two = 0
    for k in range(12 if tier == "quick" else 150):
        base = copy.deepcopy(dbs[k % len(dbs)][:6]) if k % 2 else []
        (fx, sx), (fy, sy), (fz, sz) = rng.sample([p for p in pool if oracle.parse(p[1]) is not None], 3)
        ops = [{"op": "add", "formula": fz, "smiles": sz, "via": "A"}, {"op": "add", "formula": fx, "smiles": sx, "via": "A"},
               {"op": "remove", "formula": fx, "via": "B"}, {"op": "add", "formula": fy, "smiles": sy, "via": "B"},
               {"op": "add", "formula": fy, "smiles": sy, "via": "A"}, {"op": "add", "formula": fx, "smiles": sx, "via": "A"},
               {"op": "bulk", "entries": [{"formula": fy, "smiles": sy}, {"formula": fz, "smiles": sz}], "via": "B"},
               {"op": "remove", "formula": fz, "via": "A"}, {"op": "add", "formula": fz, "smiles": sz, "via": "B"}]
        tid += 1
        n_two += 1
        run_history(tid, ops, events, base)
    for k in range(15 if tier == "quick" else 200):
        ops = []
        for _ in range(rng.randint(6, 14)):
            c = rng.random()
            via = rng.choice("AB")
            if c < 0.55:
                f, s_ = rng.choice(pool)
                ops.append({"op": "add", "formula": f, "smiles": s_, "via": via})
            elif c < 0.65:
                ents = [dict(zip(("formula", "smiles"), rng.choice(pool))) for _ in range(rng.randint(1, 3))]
                ops.append({"op": "bulk", "entries": ents, "via": via})
            else:
                ops.append({"op": "remove", "formula": rng.choice([p[0] for p in pool]), "via": via})
        tid += 1
        n_two += 1
        run_history(tid, ops, events, [])
    # AutomaticRulesExtraction: formulas derived from the SMILES, then one bulk add on a shipped database
    from synrbl.SynRuleImputer.auto_extract_rules import AutomaticRulesExtraction
    n_auto = 0
    for k, base in enumerate(dbs):
        for trial in range(2 if tier == "quick" else 12):
            smis = [rng.choice([p[1] for p in pool] + [d["smiles"] for d in base[:8]] + ["CCOC(C)=O", "c1ccccc1", "[K+]"])
                    for _ in range(rng.randint(3, 9))]
            ext = AutomaticRulesExtraction(existing_database=copy.deepcopy(base), n_jobs=1, verbose=0)
            sink = io.StringIO()
            with contextlib.redirect_stdout(sink):
                ext.add_new_entries({"smiles": smis})
                entries = [{"formula": e["formula"] if isinstance(e["formula"], str) else "NONE", "smiles": e["smiles"],
                            "valid": oracle.parse(e["smiles"]) is not None} for e in ext.new_smiles_dict]
                out = ext.extract_rules()
            tid += 1
            n_auto += 1
            events.append({"ev": "begin", "tid": tid, "step": 0, "after": snap(base)})
            events.append({"ev": "bulk", "tid": tid, "step": 1, "entries": entries, "rejected": None,
                           "after": snap_full(out, len(base))})
    for e in events:
        if e["ev"] == "bulk" and e.get("rejected") is None:
            # extract_rules does not return the rejected entries: derive them from what was not appended
            e["rejected"] = []
            e["no_rejected_list"] = True
    common.write_ndjson(out_file, events)
    print(json.dumps({"events": len(events), "tlc_histories": n_tlc, "auto_extraction_runs": n_auto, "two_handle_histories": n_two, "random_histories": tid - n_tlc,
                      "shipped_db_sizes": [len(d) for d in dbs]}))


if __name__ == "__main__":
    main()
