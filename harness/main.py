"""Entry point: ./check <property> [--tier quick|thorough] [--replay file]"""
import argparse
import importlib
import os
import sys
import traceback

from harness import common


def main():
    ap = argparse.ArgumentParser()
    ap.add_argument("prop")
    ap.add_argument("--tier", default=os.environ.get("VERIF_TIER", "quick"))
    ap.add_argument("--replay", default=None)
    args = ap.parse_args()
    prop = args.prop.upper()
    tier = args.tier if args.tier in ("quick", "thorough") else "quick"
    try:
        mod = importlib.import_module("harness.p_" + prop.lower())
    except ModuleNotFoundError:
        print("no check for property %s" % prop, file=sys.stderr)
        return 2
    try:
        if args.replay:
            return mod.replay(args.replay)
        common.prune_work(common.tree_hash())
        return mod.run(tier)
    except common.MachineryError as e:
        print("MACHINERY-ERROR property=%s: %s" % (prop, e), file=sys.stderr)
        return 2
    except Exception:
        traceback.print_exc()
        print("MACHINERY-ERROR property=%s: unexpected exception" % prop, file=sys.stderr)
        return 2


if __name__ == "__main__":
    sys.exit(main())
