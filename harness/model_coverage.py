"""How much of Pipeline.tla do the recorded rows exercise?  Pipeline_Cover.tla makes TLC collect every
transition of the design model projected on what the hook snapshots show; the same projection is applied
to the recorded row histories. Transitions of the model that no real row took are reported in the
evidence (they name the inputs still to be constructed); a low ratio means the trace validation was
vacuous for part of the model."""
import json
import os

from harness import common


def _key(d):
    return json.dumps(d, sort_keys=True)


def model_transitions():
    th = common.tree_hash()
    wd = common.workdir("cover", th)
    out = os.path.join(wd, "pipeline_cover.json")
    if not os.path.exists(out):
        env = {"VERDICT_FILE": out + ".tmp"}
        res = common.run_tlc("Pipeline_Cover", "Pipeline_Cover.cfg", workers=1, env=env, timeout=3600)
        if not res["ok"] or not os.path.exists(out + ".tmp"):
            raise common.MachineryError("Pipeline_Cover did not complete")
        os.replace(out + ".tmp", out)
    with open(out) as f:
        trans = json.load(f)["transitions"]
    # Recheck is a silent step between the snapshot after rule_based_2 and the one after final_validate:
    # the snapshot after rule_based_2 is the recheck state, and the observed "final_validate" step is
    # Recheck followed by FinalValidate
    by_src = {}
    for a, b in trans:
        by_src.setdefault(_key(a), []).append(b)
    edges = set()
    for a, b in trans:
        if a["pc"] == "recheck":
            for c in by_src.get(_key(b), []):
                edges.add(("final_validate", _key(_strip(a)), _key(_strip(c))))
        elif a["pc"] == "final_validate" and False:
            pass
        else:
            edges.add((a["pc"], _key(_strip(a)), _key(_strip(b))))
    return edges


def _strip(s):
    return {k: v for k, v in s.items() if k != "pc"}


def observed_transitions(histories):
    edges = {}
    for h in histories:
        thr = h["thr"]

        def cls(c):
            return "none" if c == -1 else ("ge" if c >= thr else "lt")
        prev = {"cur": h["inp"], "same": True, "solved": False, "by": "ABSENT", "issue": "absent", "mcs": "absent",
                "clabel": "unset", "conf": "none", "thr0": thr == 0}
        for s in h["stages"]:
            nxt = {"cur": s["cur"], "same": s["same"], "solved": s["solved"], "by": s["by"], "issue": s["issue"],
                   "mcs": s["mcs"], "clabel": s["clabel"], "conf": cls(s["conf"]), "thr0": thr == 0}
            k = (s["name"], _key(prev), _key(nxt))
            edges.setdefault(k, h["input"])
            prev = nxt
    return edges


def pipeline_cover(histories):
    model = model_transitions()
    obs = observed_transitions(histories)
    inter = [k for k in obs if k in model]
    outside = [k for k in obs if k not in model]
    per_stage = {}
    for st, a, b in model:
        d = per_stage.setdefault(st, {"model": 0, "exercised": 0})
        d["model"] += 1
        if (st, a, b) in obs:
            d["exercised"] += 1
    unexercised = sorted(k for k in model if k not in obs)
    # the most informative misses: transitions that change something
    changing = [k for k in unexercised if k[1] != k[2]]
    return {"model_transitions": len(model), "exercised_by_real_rows": len(inter),
            "observed_outside_model": len(outside),
            "observed_outside_model_examples": [{"stage": k[0], "from": json.loads(k[1]), "to": json.loads(k[2]),
                                                 "input": obs[k][:120]} for k in outside[:5]],
            "per_stage": per_stage,
            "unexercised_examples": [{"stage": k[0], "from": json.loads(k[1]), "to": json.loads(k[2])} for k in changing[:25]]}
