"""C02 - decided by API clauses over the shared pipeline recording (see DESIGN.md section 5/C02)."""
from harness import api_props, pipeline_design

CLAUSES = ['OnlyAdds', 'InputEcho']


def run(tier):
    return api_props.run_api_property("C02", tier, set(CLAUSES), design=pipeline_design.design_c02)


def replay(path):
    return api_props.replay_api("C02", path, set(CLAUSES))
