"""C08 driver: real SyntheticRuleMatcher / SyntheticRuleImputer / RuleConstraint
calls on enumerated and random imbalance vectors, with oracle facts."""
import copy
import gzip
import itertools
import json
import os
import random
import sys

from rdkit import Chem

from harness import oracle, common, corpus
from synrbl.SynRuleImputer.synthetic_rule_matcher import SyntheticRuleMatcher
from synrbl.SynRuleImputer.synthetic_rule_imputer import SyntheticRuleImputer
from synrbl.SynRuleImputer.synthetic_rule_constraint import RuleConstraint

BAN = ["[O].[O]", "F-F", "Cl-Cl", "Br-Br", "I-I", "Cl-Br", "Cl-I", "Br-I"]
HAL = {"F", "Cl", "Br", "I"}


def load_db(path):
    try:
        with gzip.open(path, "rt") as f:
            return json.load(f)
    except OSError:
        with open(path) as f:
            return json.load(f)


def db_event(name, db):
    recs = []
    for r in db:
        c = oracle.comp(r["smiles"])
        m = oracle.parse(r["smiles"])
        orc = dict(c[0]) if c else {}
        if c:
            orc["Q"] = c[1]
        ionic = sum(abs(a.GetFormalCharge()) for a in m.GetAtoms()) if m else 0
        recs.append({"smiles": r["smiles"], "formula": r.get("formula", ""), "comp": r["Composition"],
                     "oracle": orc, "valid": c is not None, "ionic": ionic})
    return {"ev": "db", "name": name, "records": recs}


def vectors(elems, max_atoms, qs):
    out = []
    for n in range(1, max_atoms + 1):
        for combo in itertools.combinations_with_replacement(elems, n):
            d = {}
            for e in combo:
                d[e] = d.get(e, 0) + 1
            for q in qs:
                v = dict(d)
                if q:
                    v["Q"] = q
                out.append(v)
    return out


def delta(reactants, products):
    """Products minus reactants as a sorted list of [element, n] (charge as "Q"), zeros left out;
    ["?", 0] when a side does not parse."""
    a, b = oracle.comp(reactants), oracle.comp(products)
    if a is None or b is None:
        return [["?", 0]]
    d = {}
    for (c, q), sign in ((a, -1), (b, 1)):
        for el, n in c.items():
            d[el] = d.get(el, 0) + sign * n
        d["Q"] = d.get("Q", 0) + sign * q
    return [[el, d[el]] for el in sorted(d) if d[el]]


def banned_product(products):
    """oracle: any product molecule is an elemental dihalogen / interhalogen, or two
    free oxygen atoms"""
    m = oracle.parse(products)
    if m is None:
        return False
    free_o = 0
    for frag in Chem.GetMolFrags(m, asMols=True):
        syms = [a.GetSymbol() for a in frag.GetAtoms()]
        if len(syms) == 2 and all(s in HAL for s in syms) and frag.GetNumBonds() == 1 \
                and all(a.GetTotalNumHs() == 0 and a.GetFormalCharge() == 0 for a in frag.GetAtoms()):
            return True
        if syms == ["O"] and frag.GetAtomWithIdx(0).GetTotalNumHs() == 0 and frag.GetAtomWithIdx(0).GetFormalCharge() == 0:
            free_o += 1
    return free_o >= 2 and "[O].[O]" in products


def main():
    out_file, tier, seed = sys.argv[1], sys.argv[2], int(sys.argv[3])
    rng = random.Random(seed)
    repo = os.environ.get("VERIF_REPO", "/repo")
    dbs = {"rules_manager": load_db(os.path.join(repo, "synrbl/SynRuleImputer/rules_manager.json.gz")),
           "automated": load_db(os.path.join(repo, "Data/Rules/automated_rules.json.gz"))}
    ev = []

    def add(e):
        e["id"] = len(ev) + 1
        ev.append(e)

    for name, db in dbs.items():
        add(db_event(name, db))
    all_el = sorted({k for r in dbs["rules_manager"] for k in r["Composition"] if k != "Q"})
    core = ["H", "O", "N", "Cl", "Na", "S"]
    if tier == "quick":
        vs = vectors(all_el, 2, (-2, -1, 0, 1, 2)) + vectors(core, 4, (-1, 0, 1))
        nrand = 80
    else:
        vs = vectors(all_el, 3, (-2, -1, 0, 1, 2)) + vectors(core, 6, (-2, -1, 0, 1, 2))
        nrand = 2000
    seen = set()
    uniq = []
    for v in vs:
        k = json.dumps(v, sort_keys=True)
        if k not in seen:
            seen.add(k)
            uniq.append(v)
    # random larger vectors (<= 12 atoms)
    for _ in range(nrand):
        v = {}
        for _ in range(rng.randint(3, 7 if tier == "quick" else 8)):
            e = rng.choice(core + ["H", "H", "O", "Br", "K", "P", "B", "C", "I"])
            v[e] = v.get(e, 0) + 1
        q = rng.choice((0, 0, 0, 1, -1, 2, -2, -3))
        if q:
            v["Q"] = q
        uniq.append(v)
    for v in uniq:
        for name in ("rules_manager",) if len(ev) % 7 else ("rules_manager", "automated"):
            m = SyntheticRuleMatcher(copy.deepcopy(dbs[name]), dict(v), select="all", ranking="ion_priority")
            sols = m.match()
            add({"ev": "match", "db": name, "data": v, "natoms": sum(x for k_, x in v.items() if k_ != "Q"), "mode": "all/ion_priority",
                 "solutions": [[{"smiles": x["smiles"], "ratio": x["Ratio"]} for x in s] for s in sols]})
    # other selection / ranking modes (select='best' is the class default), multiples of database compounds
    # (ratios >= 3, charges of magnitude >= 3), both databases: exactness only
    modes = [("best", False), ("best", "longest"), ("all", "longest"), ("all", "least"), ("all", "greatest"), ("all", False)]
    scaled = []
    for name, db in dbs.items():
        for rec in db:
            for k in (3, 5, 12):
                v = {el: n * k for el, n in rec["Composition"].items() if n != 0}
                scaled.append((name, v))
    combos = []
    recs = dbs["rules_manager"]
    for _ in range(60 if tier == "quick" else 600):
        a, b = rng.sample(recs, 2)
        v = {}
        for rec, k in ((a, rng.choice((1, 2, 4))), (b, rng.choice((1, 3)))):
            for el, n in rec["Composition"].items():
                v[el] = v.get(el, 0) + n * k
        combos.append(("rules_manager", {el: n for el, n in v.items() if n != 0}))
    extra_vs = scaled + combos + [("rules_manager", dict(v)) for v in rng.sample(uniq, min(len(uniq), 150 if tier == "quick" else 1500))]
    for k, (name, v) in enumerate(extra_vs):
        nat = sum(x for k_, x in v.items() if k_ != "Q")
        if nat > 40:
            continue
        sel, rk = modes[k % len(modes)] if nat <= 9 else ("best", False)
        m = SyntheticRuleMatcher(copy.deepcopy(dbs[name]), dict(v), select=sel, ranking=rk)
        sols = m.match()
        add({"ev": "match", "db": name, "data": v, "natoms": 99, "mode": "%s/%s" % (sel, rk),
             "solutions": [[{"smiles": x["smiles"], "ratio": x["Ratio"]} for x in s] for s in sols if s is not None]})
    # single_impute on synthetic entries: which molecules get appended where
    sample = rng.sample(uniq, min(len(uniq), 400 if tier == "quick" else 4000))
    solved_entries = []
    for k, v in enumerate(sample):
        unb = "Products" if k % 2 else "Reactants"
        entry = {"Diff_formula": dict(v), "Unbalance": unb, "reactants": "CCO.CC", "products": "CCOCC", "id": str(k)}
        res = SyntheticRuleImputer.single_impute(copy.deepcopy(entry), copy.deepcopy(dbs["rules_manager"]),
                                                 select="all", ranking="ion_priority")
        side = "products" if res["products"] != entry["products"] else ("reactants" if res["reactants"] != entry["reactants"] else "none")
        grown = res[side] if side != "none" else ""
        base = entry[side] if side != "none" else ""
        appended = grown[len(base) + 1:].split(".") if side != "none" and grown.startswith(base + ".") else []
        other = "reactants" if side == "products" else "products"
        add({"ev": "impute", "db": "rules_manager", "data": v, "unbalance": unb, "side": side, "appended": appended,
             "other_unchanged": side == "none" or res[other] == entry[other],
             "prefix_unchanged": side == "none" or grown.startswith(base + ".") ,
             "has_new_reaction": "new_reaction" in res})
        if "new_reaction" in res:
            solved_entries.append(res)
    # parallel_impute: each row of a batch gets its own completion. The batch holds near-twins (same elements,
    # neighbouring charges / counts), is judged row by row like single_impute, and must agree with it.
    def imp_event(name, entry, res, kind):
        side = "products" if res["products"] != entry["products"] else ("reactants" if res["reactants"] != entry["reactants"] else "none")
        grown = res[side] if side != "none" else ""
        base = entry[side] if side != "none" else ""
        appended = grown[len(base) + 1:].split(".") if side != "none" and grown.startswith(base + ".") else []
        other = "reactants" if side == "products" else "products"
        add({"ev": "impute", "db": name, "data": entry["Diff_formula"], "unbalance": entry["Unbalance"], "side": side,
             "appended": appended, "other_unchanged": side == "none" or res[other] == entry[other],
             "prefix_unchanged": side == "none" or grown.startswith(base + "."),
             "has_new_reaction": "new_reaction" in res, "via": kind})

    for name in dbs:
        seeds_ = [dict(rec["Composition"]) for rec in dbs[name]][:40] + rng.sample(uniq, 40 if tier == "quick" else 400)
        vecs = []
        for v in seeds_:
            v = {el: n for el, n in v.items() if n != 0}
            vecs.append(v)
            q = v.get("Q", 0)
            for dq in (-2, -1, 1, 2):
                w = {el: n for el, n in v.items() if el != "Q"}
                if q + dq != 0:
                    w["Q"] = q + dq
                vecs.append(w)
            els = [el for el in v if el != "Q"]
            if els:
                w = dict(v)
                w[rng.choice(els)] += 1
                vecs.append(w)
        rng.shuffle(vecs)
        par_in = [{"Diff_formula": dict(v), "Unbalance": "Products" if k % 2 else "Reactants", "reactants": "CCO.CC",
                   "products": "CCOCC", "id": str(k)} for k, v in enumerate(vecs)
                  if sum(x for el, x in v.items() if el != "Q") <= 12]
        imp = SyntheticRuleImputer(rule_dict=copy.deepcopy(dbs[name]), select="all", ranking="ion_priority")
        par_out = imp.parallel_impute(copy.deepcopy(par_in), n_jobs=2)
        if len(par_out) != len(par_in):
            add({"ev": "parallel", "entry": -1, "data": {}, "same": False, "parallel": "%d rows" % len(par_out),
                 "single": "%d rows" % len(par_in)})
            continue
        for k, (e_in, e_out) in enumerate(zip(par_in, par_out)):
            one = SyntheticRuleImputer.single_impute(copy.deepcopy(e_in), copy.deepcopy(dbs[name]), select="all",
                                                     ranking="ion_priority")
            same = (e_out.get("new_reaction"), e_out["reactants"], e_out["products"], e_out.get("id")) == \
                   (one.get("new_reaction"), one["reactants"], one["products"], one.get("id"))
            imp_event(name, e_in, e_out, "parallel")
            add({"ev": "parallel", "entry": k, "data": e_in["Diff_formula"], "same": same,
                 "parallel": str(e_out.get("new_reaction")), "single": str(one.get("new_reaction"))})
    # RuleBasedMethod.run on multi-row batches: rows whose imbalances are near-twins (the same elements, another charge;
    # one compound twice vs its dimer) in one call, in several orders; every row the stage rewrites must come out
    # exactly balanced and keep its own molecules
    from synrbl.rule_based import RuleBasedMethod
    from synrbl.SynProcessor import CheckCarbonBalance
    groups = {}
    for rec in dbs["rules_manager"]:
        c = oracle.comp(rec["smiles"])
        if c is None:
            continue
        d, q = c
        if sum(n for el, n in d.items() if el != "H") > 4:
            continue
        for k in (1, 2):
            key = tuple(sorted((el, n * k) for el, n in d.items()))
            groups.setdefault(key, {}).setdefault(q * k, ".".join([rec["smiles"]] * k))
    twins = [sorted(v.items()) for v in groups.values() if len(v) >= 2]
    rng.shuffle(twins)
    rbm = RuleBasedMethod("id", "reaction", "reaction", n_jobs=1)
    nb = 0
    for tw in twins[: 25 if tier == "quick" else 400]:
        spect = rng.choice(["CCO", "CC(=O)O", "c1ccccc1", "CCN"])
        rxs = []
        for q, smi in tw:
            rxs.append("%s.%s>>%s" % (spect, smi, spect))      # missing on the product side
            rxs.append("%s>>%s.%s" % (spect, spect, smi))      # missing on the reactant side
        rxs += ["CCBr.[OH-]>>CCO", "CCO>>CCO"]
        for order in range(2):
            rng.shuffle(rxs)
            rows = [{"id": k, "reaction": r} for k, r in enumerate(rxs)]
            rows = CheckCarbonBalance(rows, rsmi_col="reaction", symbol=">>", atom_type="C", n_jobs=1).check_carbon_balance()
            crashed = ""
            try:
                out = rbm.run([dict(r) for r in rows])
            except Exception as ex:
                out, crashed = [dict(r) for r in rows], repr(ex)[:200]
            nb += 1
            for r_in, r_out in zip(rows, out):
                o = r_out.get("reaction", "")
                fi, fo = oracle.reaction_facts(r_in["reaction"]), oracle.reaction_facts(o)
                kept = bool(fo["parses"]) and all(fo["l"].count(m) >= fi["l"].count(m) for m in fi["l"]) and \
                    all(fo["r"].count(m) >= fi["r"].count(m) for m in fi["r"])
                add({"ev": "rbm", "batch": nb, "input": r_in["reaction"], "output": o, "changed": o != r_in["reaction"],
                     "balanced_out": bool(fo["parses"]) and oracle.balanced(o) is True, "kept": kept, "crashed": crashed})
    # RuleConstraint.fit on the solved entries (+ handcrafted product sides with halogens)
    extra = []
    for prod in ("CCOCC.ClCl", "CCOCC.BrBr", "CCOCC.ClBr", "CCOCC.Cl", "CCOCC.[Cl-]", "CCOCC.II", "CCOCC.FF",
                 "CCOCC.ClI", "CCOCC.BrI", "CCOCC.[O].[O]", "CCOCC.[O]", "CCOCC.O=O", "CCOCC.ClCCl", "ClCl"):
        extra.append({"Diff_formula": {}, "Unbalance": "Products", "reactants": "CCO.CC", "products": prod,
                      "id": "x", "new_reaction": "CCO.CC>>" + prod})
    for entry in solved_entries + extra:
        c = RuleConstraint([copy.deepcopy(entry)], ban_atoms=BAN)
        certain, uncertain = c.fit()
        accepted = len(certain) == 1
        final = (certain + uncertain)[0] if (certain or uncertain) else entry
        add({"ev": "constrain", "products_in": entry["products"], "products_out": final.get("products", ""),
             "reactants_in": entry["reactants"], "reactants_out": final.get("reactants", ""),
             "accepted": accepted, "rejected": len(uncertain) >= 1,
             "has_banned_product": banned_product(final.get("products", "")),
             # products minus reactants, element by element and in charge (oracle compositions), before and after
             "delta_in": delta(entry["reactants"], entry["products"]),
             "delta_out": delta(final.get("reactants", ""), final.get("products", "")),
             "new_reaction_is_sides": final.get("new_reaction") == "%s>>%s" % (final.get("reactants", ""), final.get("products", ""))})
    common.write_ndjson(out_file, ev)
    print(json.dumps({"events": len(ev), "vectors": len(uniq), "with_solution": sum(1 for e in ev if e["ev"] == "match" and e["solutions"]),
                      "impute": sum(1 for e in ev if e["ev"] == "impute"), "constrain": sum(1 for e in ev if e["ev"] == "constrain")}))


if __name__ == "__main__":
    main()
