"""Independent chemistry oracle (RDKit only, never synrbl).

Everything the specification needs to know about a SMILES is computed here
through RDKit entry points that the tool itself does not use for the same
purpose: element symbols from atom.GetSymbol(), hydrogens from
GetTotalNumHs(), charge from GetFormalCharge(), identity from canonical SMILES
of the map-cleared molecule.
"""

from rdkit import Chem, RDLogger

RDLogger.DisableLog("rdApp.*")


def parse(smiles):
    if not isinstance(smiles, str):
        return None
    try:
        return Chem.MolFromSmiles(smiles)
    except Exception:
        return None


def mol_comp(mol):
    """Composition of an RDKit molecule: {symbol: count} with hydrogens, plus
    integer charge. Explicit [H] atoms and implicit/explicit H counts are both
    counted under 'H'."""
    comp = {}
    q = 0
    for a in mol.GetAtoms():
        s = a.GetSymbol()
        comp[s] = comp.get(s, 0) + 1
        h = a.GetTotalNumHs()
        if h:
            comp["H"] = comp.get("H", 0) + h
        q += a.GetFormalCharge()
    return comp, q


def comp(smiles):
    """(composition dict, charge) of a (possibly dot separated) SMILES or None."""
    m = parse(smiles)
    if m is None:
        return None
    return mol_comp(m)


def comp_vec(smiles):
    """Composition as a record usable by TLC: list of [sym, n] pairs sorted by
    symbol, and charge."""
    c = comp(smiles)
    if c is None:
        return None
    d, q = c
    return {"el": {k: d[k] for k in sorted(d)}, "q": q}


def ident(mol):
    """Canonical identity of one molecule with atom maps cleared."""
    m = Chem.Mol(mol)
    for a in m.GetAtoms():
        a.SetAtomMapNum(0)
    return Chem.MolToSmiles(m)


def side_molecules(side):
    """List of canonical identities of the molecules of one reaction side (the
    side is parsed as a whole, then split into fragments), or None when it
    does not parse. An empty side is the empty list."""
    if side is None:
        return None
    if side == "":
        return []
    m = parse(side)
    if m is None:
        return None
    frags = Chem.GetMolFrags(m, asMols=True)
    return sorted(ident(f) for f in frags)


def side_components(side):
    """Identities of the textual '.'-components (each parsed on its own). A
    component may itself hold several fragments only through ring-closure
    digits, which RDKit's writer never produces for disconnected parts."""
    if side == "":
        return []
    out = []
    for tok in side.split("."):
        m = parse(tok)
        if m is None:
            return None
        out.append(ident(m))
    return sorted(out)


def split_reaction(rsmi):
    if not isinstance(rsmi, str) or rsmi.count(">>") != 1:
        return None
    l, r = rsmi.split(">>")
    return l, r


def reaction_facts(rsmi):
    """Facts about a reaction string: parse flag, molecule identity lists and
    composition of both sides, carbon counts."""
    sp = split_reaction(rsmi)
    if sp is None:
        return {"parses": False}
    l, r = sp
    lm, rm = side_molecules(l), side_molecules(r)
    if lm is None or rm is None:
        return {"parses": False}
    lc = comp(l) if l != "" else ({}, 0)
    rc = comp(r) if r != "" else ({}, 0)
    return {
        "parses": True,
        "l": lm,
        "r": rm,
        "lcomp": lc[0],
        "lq": lc[1],
        "rcomp": rc[0],
        "rq": rc[1],
    }


def balanced(rsmi):
    f = reaction_facts(rsmi)
    if not f["parses"]:
        return None
    return f["lcomp"] == f["rcomp"] and f["lq"] == f["rq"]


def has_map(rsmi):
    import re

    return bool(re.search(r":\d+\]", rsmi or ""))


class Interner:
    """Maps strings (molecule identities) to small integers per trace file."""

    def __init__(self):
        self.ids = {}
        self.names = []

    def __call__(self, s):
        if s not in self.ids:
            self.ids[s] = len(self.names) + 1
            self.names.append(s)
        return self.ids[s]

    def table(self):
        return {str(i + 1): n for i, n in enumerate(self.names)}
