"""C20 - tautomer standardisation conserves atoms and returns valid SMILES."""
import json
import os

from harness import common
from harness.common import Report


def run(tier):
    rep = Report("C20", tier)
    rep.add_model(common.design_check("Standardize", "MC_Standardize.cfg", workers=4),
                  role="design: fixpoint loop with result check, every mix of rewritable / non-rewritable groups")
    rep.add_model(common.neg_check("Standardize", "Neg_Standardize.cfg"),
                  role="negative: stale work list, unchecked rewrite results")
    rep.exhaustive = True
    th = common.tree_hash()
    wd = common.workdir("rec", th, "c20_%s_%d" % (tier, common.seed()), fresh=True)
    log = os.path.join(wd, "c20.ndjson")
    info = json.loads(common.run_driver("drv_c20", [log, tier, common.seed()], timeout=3 * 3600).strip().splitlines()[-1])
    n, bad, st = common.validate_trace("Standardize_Trace", log, xmx="8g")
    rep.add_trace_stats(n, st)
    events = {e["id"]: e for e in common.read_ndjson(log)}
    for eid, clause in bad:
        e = events[eid]
        sig = "%s%s input=%s" % (e["group"], "" if e.get("via", "default") == "default" else "/" + e["via"], e["smiles"])
        rep.fail(clause, sig, group="%s/%s" % (clause, e["group"]),
                 detail={k: e[k] for k in ("smiles", "out", "raised", "out2", "raised2", "in_comp", "out_comp", "in_q", "out_q")},
                 replay={"smiles": e["smiles"]})
    rep.extra.update(info)
    evs = list(events.values())
    rep.sample({k: evs[0][k] for k in ("smiles", "out", "out2", "raised")})
    ch = [e for e in evs if e["group"] == "hemiketal"]
    rep.sample({k: ch[0][k] for k in ("smiles", "out", "out2", "raised")})
    rep.assumptions += ["compositions, charges and identity from the RDKit oracle",
                        "group detection is done by the external fgutils library whose results depend on PYTHONHASHSEED; "
                        "drivers run with PYTHONHASHSEED=0"]
    return rep.finish()


def replay(path):
    with open(path) as f:
        data = json.load(f)
    print("re-run ./check C20; failing input:", data["replay"])
    return 1
