"""C18 - decided by API clauses over the shared pipeline recording (see DESIGN.md section 5/C18)."""
from harness import api_props, pipeline_design

CLAUSES = ['ReactionCount', 'BalancedCount', 'ConfidentCount', 'McsAppliedCount', 'RbSolvedLeApplied', 'McsSolvedLeApplied', 'RbSolvedGeRows', 'McsSolvedGeRows']


def run(tier):
    return api_props.run_api_property("C18", tier, set(CLAUSES), design=pipeline_design.design_c18)


def replay(path):
    return api_props.replay_api("C18", path, set(CLAUSES))
