"""C07 driver, counter memo: replays call histories enumerated by TLC from
MC_CountCache through real CheckCarbonBalance objects living in one process,
then interleaves checkers for several atom types over corpus reactions."""
import json
import logging
import sys

from harness import oracle, common, corpus

from synrbl.SynProcessor import CheckCarbonBalance

TOK = {"OO": "OO", "acetone": "CC(C)=O", "MeOH": "CO", "ethane": "CC"}
UNIT = {"C": "C", "O": "O", "N": "N", "Cl": "Cl", "S": "S"}


def truth(smiles, atom):
    comp, _q = oracle.comp(smiles)
    return int(comp.get(atom, 0))


def reference(atom, n):
    """a mixture with exactly n atoms of the type (n = 0: helium)"""
    return ".".join([UNIT[atom]] * n) if n else "[He]"


def main():
    hist_file, out_file, tier, seed = sys.argv[1], sys.argv[2], sys.argv[3], int(sys.argv[4])
    logging.disable(logging.CRITICAL)
    with open(hist_file) as f:
        hists = json.load(f)
    ev = []

    def add(e):
        e["id"] = len(ev) + 1
        ev.append(e)

    def count(obj, atom, token, smiles, hist_no):
        ans = CheckCarbonBalance.count_atoms(smiles, obj.atom_type, obj.smiles_cache)
        t = truth(smiles, atom)
        obj.reactions_data = [{"reaction": smiles + ">>" + reference(atom, t)}]
        lab = obj.check_carbon_balance()[0]["carbon_balance_check"]
        add({"ev": "count", "hist": hist_no, "atom": atom, "token": token, "smiles": smiles, "answer": int(ans),
             "truth": t, "label": lab})

    for hn, h in enumerate(hists):
        objs = {}
        for step in h:
            if step["op"] == "create":
                objs[step["obj"]] = CheckCarbonBalance([], rsmi_col="reaction", symbol=">>", atom_type=step["atom"], n_jobs=1)
            else:
                count(objs[step["obj"]], step["atom"], step["token"], TOK[step["token"]], hn)
    # beyond the model's alphabet: checkers for five atom types interleaved over corpus molecules
    import random
    rng = random.Random(seed)
    mols = corpus.sample([m for m in corpus.molecules() if len(m) < 60], 300 if tier == "quick" else 4000, rng)
    atoms = ["O", "C", "N", "C", "Cl", "S", "C"]
    objs = [CheckCarbonBalance([], rsmi_col="reaction", symbol=">>", atom_type=a, n_jobs=1) for a in atoms]
    for m in mols:
        if oracle.parse(m) is None or "." in m:
            continue
        order = list(range(len(objs)))
        rng.shuffle(order)
        for k in order[:4]:
            count(objs[k], atoms[k], "corpus", m, -1)
    common.write_ndjson(out_file, ev)
    print(json.dumps({"count_events": len(ev), "histories": len(hists)}))


if __name__ == "__main__":
    main()
