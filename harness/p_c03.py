"""C03 - decided by API clauses over the shared pipeline recording (see DESIGN.md section 5/C03)."""
from harness import api_props, pipeline_design

CLAUSES = ['DeclinedUntouched', 'DeclinedHasReason', 'SolvedNamesMethod', 'CarbonDeficitDeclined']


def run(tier):
    return api_props.run_api_property("C03", tier, set(CLAUSES), design=pipeline_design.design_c03)


def replay(path):
    return api_props.replay_api("C03", path, set(CLAUSES))
