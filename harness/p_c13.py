"""C13 - the confidence threshold only demotes low-confidence MCS results."""
import json
import os
import random

from harness import common, corpus, gen, oracle, pipeline_design
from harness.common import Report

KNOWN_MCS = ["CC(=O)OCC>>CCO", "CC(=O)OC>>CC(=O)O", "CCC(=O)OC>>CO", "CC(=O)Nc1ccccc1>>Nc1ccccc1",
             "COC(=O)c1ccccc1>>OC(=O)c1ccccc1", "CCOC(=O)CC>>CCC(=O)O", "CC(=O)OC(C)C>>CC(C)O"]
OTHERS = ["CCO>>CCO", "CCBr.[OH-]>>CCO", "CC(=O)Cl.N>>CC(N)=O", "CC>>CCC", "CCO.CC(=O)O>>CCOC(C)=O",
          "c1ccccc1>>c1ccccc1Cl", "CC=O>>CCO"]


# Reactions whose MCS result gets a confidence at the ends of the scale. Found by running the family "k equivalents
# of an addition / hydrolysis plus small spectator molecules" (harness/gen.py style derivation) at threshold 0 and
# keeping the extremes: the reported confidence of the first four is 0.0, of the last two > 0.995.
EXTREMES = ["CN.C=CC#N.CN.C=CC#N.C>>CNCCC#N.CNCCC#N", "CN.C=CC#N.CN.C=CC#N.CO>>CNCCC#N.CNCCC#N",
            "C=CC=O.CS.C=CC=O.CS.C>>CSCCC=O.CSCCC=O", "C=CC=O.CS.C=CC=O.CS.CO>>CSCCC=O.CSCCC=O",
            "CC(=O)OCC.CC(=O)OCC.c1ccccc1>>CCO.CCO", "CC(=O)Nc1ccccc1.CC(=O)Nc1ccccc1.c1ccccc1>>Nc1ccccc1",
            "CC(=O)Nc1ccccc1.c1ccccc1>>Nc1ccccc1"]


def _renderings(t):
    out = {repr(t), "%g" % t, "{:.2%}".format(t), "{:.1%}".format(t), "{:.0%}".format(t), "{:.3f}".format(t),
           "{:.2f}".format(t), str(round(t * 100, 2))}
    return [r for r in out if r]


def _rows_event(rows, t):
    out = []
    for e in rows:
        c = None
        try:
            c = float(e["conf_raw"]) if e["conf_raw"] not in ("", "None") else None
        except ValueError:
            c = None
        out.append({"solved": e["solved"], "by": e["by"], "conf": e["conf"], "conf_raw": e["conf_raw"],
                    "c_ge_t": (c is not None and c >= t), "issue": e["issue"], "reaction": e["reaction"],
                    "issue_names_t": any(r in e["issue"] for r in _renderings(t)) and "hreshold" in e["issue"],
                    "input": e["argstr"]})
    return out


def run(tier):
    rep = Report("C13", tier)
    pipeline_design.design_c13(rep, tier)
    rng = random.Random(common.seed() * 31 + 7)
    th = common.tree_hash()
    wd = common.workdir("rec", th, "c13_%s_%d" % (tier, common.seed()), fresh=True)
    n_corpus = 30 if tier == "quick" else 260
    pool = corpus.small_fast(corpus.unbalanced_reactions() + corpus.plain_reactions())
    batch = KNOWN_MCS + OTHERS + EXTREMES + corpus.sample(pool, n_corpus, rng)
    seen = set()
    batch = [s for s in batch if oracle.reaction_facts(s)["parses"] and not (s in seen or seen.add(s))]
    rng.shuffle(batch)
    fams = [batch] if tier == "quick" else [batch[k::4] for k in range(4)]
    events = []
    nid = 0
    fam_inputs = {}
    excluded_timing = []
    for fi, inputs in enumerate(fams, 1):
        p1 = os.path.join(wd, "plan1_%d.json" % fi)
        with open(p1, "w") as f:
            json.dump({"runs": [{"name": "ref", "inputs": inputs, "form": "list", "batch_size": None,
                                 "n_jobs": 16, "threshold": 0}]}, f)
        log1 = os.path.join(wd, "ref_%d.ndjson" % fi)
        common.run_driver("drv_pipeline", [p1, log1])
        rows = [e for e in common.read_ndjson(log1) if e["ev"] == "row"]
        if len(rows) != len(inputs):
            raise common.MachineryError("reference run returned %d rows for %d valid inputs" % (len(rows), len(inputs)))
        confs = sorted({float(e["conf_raw"]) for e in rows if e["by"] == "mcs-based" and e["conf_raw"] not in ("", "None")})
        ts = {0.5, 1.0, 0.001, 0.999}
        sel = confs if tier == "thorough" else (confs[:2] + confs[-2:] + rng.sample(confs, min(2, len(confs))))
        for c in sel:
            ts.add(c)                       # exactly the reported value (>= at equality)
            ts.add(round(c, 3))             # the value a user would type
            ts.add(min(1.0, round(c + 0.001, 3)))
            ts.add(max(0.0, round(c - 0.001, 3)))
        ts = sorted(t for t in ts if 0 < t <= 1)
        # the same thresholds as integers, 0 again (explicitly passed), and a threshold no result can reach
        ts = ts + [1, 0, 0.0]
        nid += 1
        events.append({"ev": "ref", "id": nid, "fam": fi, "t_raw": "0", "rows": _rows_event(rows, 0.0)})
        p2 = os.path.join(wd, "plan2_%d.json" % fi)
        runs = []
        for k, t in enumerate(ts):
            runs.append({"name": "t=%r" % t, "inputs": inputs, "form": "list",
                         "batch_size": {2: 9, 3: 1, 5: 2}.get(k), "n_jobs": 1 if k in (3, 5) else 16, "threshold": t,
                         "ctor": k % 3 == 1})
        with open(p2, "w") as f:
            json.dump({"runs": runs}, f)
        log2 = os.path.join(wd, "runs_%d.ndjson" % fi)
        common.run_driver("drv_pipeline", [p2, log2], timeout=4 * 3600)
        by_run = {}
        for e in common.read_ndjson(log2):
            if e["ev"] == "row":
                by_run.setdefault(e["run"], []).append(e)
        fam_events = [events[-1]]
        for k, t in enumerate(ts, 1):
            nid += 1
            events.append({"ev": "run", "id": nid, "fam": fi, "t_raw": repr(t), "rows": _rows_event(by_run.get(k, []), t)})
            fam_events.append(events[-1])
        # rows that hit a wall-clock budget in any run are not reproducible: drop that position everywhere
        n0 = len(fam_events[0]["rows"])
        if all(len(e["rows"]) == n0 for e in fam_events):
            flaky = {j for e in fam_events for j, r in enumerate(e["rows"]) if "timeout" in r["issue"].lower()}
            if flaky:
                for e in fam_events:
                    e["rows"] = [r for j, r in enumerate(e["rows"]) if j not in flaky]
                excluded_timing.extend(sorted(flaky))
        fam_inputs[fi] = (inputs, len(confs), len(ts))
    log = os.path.join(wd, "c13.ndjson")
    common.write_ndjson(log, events)
    n, bad, st = common.validate_trace("Threshold_Trace", log)
    rep.add_trace_stats(n, st)
    ev = {e["id"]: e for e in events}
    for eid, pos, clause in bad:
        e = ev[eid]
        x = e["rows"][pos - 1] if pos >= 1 and pos <= len(e["rows"]) else {}
        refrow = None
        for r in events:
            if r["ev"] == "ref" and r["fam"] == e["fam"] and 1 <= pos <= len(r["rows"]):
                refrow = r["rows"][pos - 1]
        sig = "t=%s input=%s conf=%s" % (e["t_raw"], x.get("input"), x.get("conf_raw"))
        rep.fail(clause, sig, detail={"threshold": e["t_raw"], "row": x, "reference_row_t0": refrow},
                 group=clause, replay={"inputs": fam_inputs[e["fam"]][0], "threshold": float(e["t_raw"]),
                                       "input": x.get("input")})
    mcs_rows = sum(1 for e in events if e["ev"] == "ref" for r in e["rows"] if r["by"] == "mcs-based")
    rep.extra.update({"families": len(fams), "runs": len(events), "rows_excluded_for_wallclock_timeouts": len(excluded_timing), "mcs_rows_in_reference": mcs_rows,
                      "thresholds_per_family": [fam_inputs[k][2] for k in fam_inputs],
                      "distinct_confidences": [fam_inputs[k][1] for k in fam_inputs]})
    rep.sample({"ref_rows": events[0]["rows"][:3]})
    rep.sample({"t": events[1]["t_raw"], "rows": events[1]["rows"][:3]})
    rep.assumptions += ["c >= t is evaluated in double precision on the confidence the tool reports and the threshold passed",
                        "reactions far from the MCS wall-clock budgets (small molecules) so that runs are reproducible"]
    return rep.finish()


def replay(path):
    with open(path) as f:
        data = json.load(f)
    rp = data["replay"]
    wd = common.workdir("replay_tmp", fresh=True)
    plan = {"runs": [{"name": "ref", "inputs": rp["inputs"], "threshold": 0, "n_jobs": 8},
                     {"name": "t", "inputs": rp["inputs"], "threshold": rp["threshold"], "n_jobs": 8}]}
    pf = os.path.join(wd, "plan.json")
    with open(pf, "w") as f:
        json.dump(plan, f)
    log = os.path.join(wd, "r.ndjson")
    common.run_driver("drv_pipeline", [pf, log])
    rows = {}
    for e in common.read_ndjson(log):
        if e["ev"] == "row":
            rows.setdefault(e["run"], []).append(e)
    events = [{"ev": "ref", "id": 1, "fam": 1, "t_raw": "0", "rows": _rows_event(rows[1], 0.0)},
              {"ev": "run", "id": 2, "fam": 1, "t_raw": repr(rp["threshold"]), "rows": _rows_event(rows[2], rp["threshold"])}]
    tl = os.path.join(wd, "t.ndjson")
    common.write_ndjson(tl, events)
    n, bad, st = common.validate_trace("Threshold_Trace", tl)
    print("failing clauses:", bad)
    return 1 if bad else 0
