"""Driver for the MissingGraph model: every (molecule, matched atoms) case enumerated by TLC from
MC_MissingGraph is built as an RDKit molecule and a SMARTS pattern (as the pipeline does) and sent
through the real FindMissingGraphs.find_missing_parts_pairs; the returned rest, boundary and nearest
lists are logged as graphs. A second part takes corpus molecules with a real rdFMCS pattern."""
import json
import logging
import random
import sys

from rdkit import Chem
from rdkit.Chem import rdFMCS

from harness import common, corpus, oracle

from synrbl.SynMCSImputer.MissingGraph.find_missing_graphs import FindMissingGraphs

NUM = {"C": 6, "N": 7, "O": 8, "S": 16}


def build(lab, edges):
    rw = Chem.RWMol()
    for l in lab:
        rw.AddAtom(Chem.Atom(NUM[l]))
    for a, b in edges:
        rw.AddBond(a - 1, b - 1, Chem.BondType.SINGLE)
    m = rw.GetMol()
    Chem.SanitizeMol(m)
    return m


def graph_of(mol):
    lab = [a.GetSymbol() for a in mol.GetAtoms()]
    edges = sorted([min(b.GetBeginAtomIdx(), b.GetEndAtomIdx()) + 1, max(b.GetBeginAtomIdx(), b.GetEndAtomIdx()) + 1]
                   for b in mol.GetBonds())
    return {"lab": lab, "edges": edges}


def run_one(mol, mcs_mol):
    out = {"none": True, "lab": [], "edges": [], "pairs": [], "nb": 0, "nn": 0, "syms_ok": True}
    raised = ""
    try:
        miss, bnd, near = FindMissingGraphs.find_missing_parts_pairs([mol], [mcs_mol])
    except Exception as ex:
        return out, repr(ex), (0, 0, 0)
    lens = (len(miss), len(bnd), len(near))
    if lens != (1, 1, 1):
        return out, "", lens
    mp, b, n = miss[0], bnd[0], near[0]
    if mp is not None:
        g = graph_of(mp)
        out.update({"none": False, "lab": g["lab"], "edges": g["edges"]})
    b = b or []
    n = n or []
    out["nb"], out["nn"] = len(b), len(n)
    ok = True
    pairs = []
    for db, dn in zip(b, n):
        (sb, ib), = db.items()
        (sn, i_n), = dn.items()
        pairs.append([ib + 1, i_n + 1])
        if mp is None or ib >= mp.GetNumAtoms() or mp.GetAtomWithIdx(ib).GetSymbol() != sb:
            ok = False
        if i_n >= mol.GetNumAtoms() or mol.GetAtomWithIdx(i_n).GetSymbol() != sn:
            ok = False
    out["pairs"] = pairs
    out["syms_ok"] = ok
    return out, raised, lens


def main():
    cases_file, out_file, tier, seed = sys.argv[1], sys.argv[2], sys.argv[3], int(sys.argv[4])
    logging.disable(logging.CRITICAL)
    rng = random.Random(seed)
    with open(cases_file) as f:
        cases = json.load(f)
    ev = []

    def add(e):
        e["id"] = len(ev) + 1
        ev.append(e)

    skipped = 0
    for c in cases:
        lab, edges, M = c["lab"], c["edges"], sorted(c["M"])
        mol = build(lab, edges)
        if any(a.GetIsAromatic() for a in mol.GetAtoms()):
            skipped += 1      # RDKit perceives some three-membered N/O rings as aromatic: outside the model (single bonds only)
            continue
        pos = {a: k + 1 for k, a in enumerate(M)}
        p = {"lab": [lab[a - 1] for a in M],
             "edges": sorted([pos[a], pos[b]] for a, b in edges if a in pos and b in pos)}
        pm = build(p["lab"], p["edges"])
        mcs_mol = Chem.MolFromSmarts(Chem.MolToSmarts(pm))
        out, raised, lens = run_one(mol, mcs_mol)
        add({"ev": "missing", "g": {"lab": lab, "edges": [list(e) for e in edges]}, "p": p, "out": out, "raised": raised,
             "lens": list(lens), "smiles": Chem.MolToSmiles(mol), "pattern": Chem.MolToSmarts(pm)})
    # beyond the bound: corpus molecule pairs with a real rdFMCS pattern; cheap clauses only
    mols = [m for m in corpus.molecules(rng=rng) if 6 <= len(m) <= 60 and "." not in m][: 6000]
    nbig = 300 if tier == "quick" else 3000
    done = 0
    for k in range(0, len(mols) - 1, 2):
        if done >= nbig:
            break
        a, b = oracle.parse(mols[k]), oracle.parse(mols[k + 1])
        if a is None or b is None:
            continue
        res = rdFMCS.FindMCS([a, b], timeout=2, ringMatchesRingOnly=rng.random() < 0.5, completeRingsOnly=False)
        if res.canceled or res.numAtoms < 2:
            continue
        mcs_mol = Chem.MolFromSmarts(res.smartsString)
        big, _ = (a, b) if a.GetNumAtoms() >= b.GetNumAtoms() else (b, a)
        out, raised, lens = run_one(big, mcs_mol)
        # can the pattern (under any of its matches) take only part of an aromatic ring? Then the rest does not
        # sanitize and the implementation repairs / drops components (MoleculeCurator.manual_kekulize)
        arings = [set(r) for r in big.GetRingInfo().AtomRings() if all(big.GetAtomWithIdx(x).GetIsAromatic() for x in r)]
        ring_cut = any(0 < len(set(mt) & r) < len(r) for mt in big.GetSubstructMatches(mcs_mol, uniquify=True, maxMatches=2000)
                       for r in arings)
        counts = {}
        for at in big.GetAtoms():
            counts[at.GetSymbol()] = counts.get(at.GetSymbol(), 0) + 1
        pc = {}
        for at in mcs_mol.GetAtoms():
            s = Chem.GetPeriodicTable().GetElementSymbol(at.GetAtomicNum()) if at.GetAtomicNum() else "*"
            pc[s] = pc.get(s, 0) + 1
        oc = {}
        for s in out["lab"]:
            oc[s] = oc.get(s, 0) + 1
        nfrag = 0
        if not out["none"]:
            nfrag = len(Chem.GetMolFrags(build_from(out))) if out["lab"] else 0
        add({"ev": "missing_big", "smiles": Chem.MolToSmiles(big), "pattern": res.smartsString, "mol_counts": counts,
             "pattern_counts": pc, "out_counts": oc, "out_none": out["none"], "npairs": len(out["pairs"]),
             "nb": out["nb"], "nn": out["nn"], "syms_ok": out["syms_ok"], "nfrag": nfrag, "raised": raised,
             "lens": list(lens), "wild": "*" in pc, "ring_cut": ring_cut})
        done += 1
    common.write_ndjson(out_file, ev)
    print(json.dumps({"cases": len(cases), "cases_skipped_aromatic": skipped, "corpus_pairs": done, "events": len(ev),
                      "corpus_pairs_cutting_an_aromatic_ring": sum(1 for e in ev if e.get("ring_cut"))}))


def build_from(out):
    rw = Chem.RWMol()
    for l in out["lab"]:
        rw.AddAtom(Chem.Atom(l))
    for a, b in out["edges"]:
        rw.AddBond(a - 1, b - 1, Chem.BondType.SINGLE)
    return rw.GetMol()


if __name__ == "__main__":
    main()
