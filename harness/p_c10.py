"""C10 - MCS search results are genuine, correctly attributed and largest."""
import json
import os

from harness import common
from harness.common import Report


def run(tier):
    rep = Report("C10", tier)
    rep.add_model(common.design_check("MC_MCSSelect", "MC_MCSSelect.cfg", workers=8),
                  role="design: selection among conditions on every table in the bound")
    rep.add_model(common.neg_check("MC_MCSSelect", "Neg_MCSSelect.cfg"), role="negative: ties not reset in the first pass")
    rep.add_model(common.design_check("MCSAlign", "MC_MCSAlign.cfg", workers=4),
                  role="design: pattern i belongs to molecule i whenever a search result is used (cancelled / failed searches)")
    rep.add_model(common.neg_check("MCSAlign", "Neg_MCSAlign.cfg"), role="negative: without the length check of build_compounds")
    rep.add_model(common.design_check("Plumbing", "MC_Plumbing.cfg", workers=8), role="design: routing of results by id")
    rep.add_model(common.neg_check("Plumbing", "Neg_Plumbing_zip.cfg"), role="negative: positional zip")
    rep.exhaustive = True
    th = common.tree_hash()
    wd = common.workdir("rec", th, "c10_%s_%d" % (tier, common.seed()), fresh=True)
    cfg = "MC_MCSSelect_replay_quick.cfg" if tier == "quick" else "MC_MCSSelect.cfg"
    res, states = common.tlc_dump_states("MC_MCSSelect", cfg, workers=8)
    rep.add_model(res, role="enumeration of tables for replay")
    tables = [s["table"] for s in states]
    if len(tables) > 6000:
        # the real function starts three joblib calls per table: replay a seeded sample of the full enumeration
        import random
        random.Random(common.seed()).shuffle(tables)
        tables = tables[:6000]
    tf = os.path.join(wd, "tables.json")
    with open(tf, "w") as f:
        json.dump(tables, f)
    log = os.path.join(wd, "c10.ndjson")
    info = json.loads(common.run_driver("drv_c10", [tf, log, tier, common.seed()], timeout=4 * 3600).strip().splitlines()[-1])
    n, bad, st = common.validate_trace("MCSSelect_Trace", log, xmx="12g")
    rep.add_trace_stats(n, st)
    events = {e["id"]: e for e in common.read_ndjson(log)}
    drift = 0
    for eid, clause in bad:
        e = events[eid]
        if clause.startswith("DRIFT_"):
            drift += 1
            continue
        if e["ev"] == "table":
            sig = "table=%s result=%s" % (json.dumps(e["conds"]), json.dumps(e["result"]))
            rep.fail(clause, sig, detail={"conds": e["conds"], "result": e["result"]}, group="table/" + clause,
                     replay={"table": e["conds"]})
        else:
            sig = "search batch=%d reaction=%s" % (e["batch"], e["reaction"])
            rep.fail(clause, sig, detail=e, group="search/" + clause, replay={"reaction": e["reaction"]})
    rep.extra.update(info)
    rep.extra["model_drift_count"] = drift
    rep.sample(events[1])
    rep.sample([e for e in events.values() if e["ev"] == "search" and e["has_mcs"]][0])
    rep.assumptions += ["pattern sizes, containment (HasSubstructMatch) and molecule identity come from the RDKit oracle",
                        "the three per-condition totals of a real reaction are obtained from a separate ensemble_mcs call; "
                        "reactions with a wall-clock timeout in either call are excluded from the 'largest' clause"]
    return rep.finish()


def replay(path):
    with open(path) as f:
        data = json.load(f)
    print("re-run ./check C10; failing case:", json.dumps(data["replay"])[:500])
    return 1
