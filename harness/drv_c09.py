"""C09 driver: cut one acyclic single bond of a molecule with RDKit, hand the two
fragments (or one of them) to the real merge() exactly as build_compounds would,
and log boundary descriptors, reported rules and oracle facts about the result."""
import json
import logging
import os
import random
import sys

from rdkit import Chem

from harness import oracle, common, corpus

from synrbl.SynMCSImputer.structure import CompoundSet
from synrbl.SynMCSImputer.merge import merge
import synrbl.SynUtils.functional_group_utils as fgutils

GEN = ["CCOC(C)=O", "CC(=O)NCC", "CCSC(C)=O", "CCOCC", "CCSCC", "CC[Si](C)(C)C", "CCB(O)O", "CC[Mg]Br", "CCOP(=O)(OC)OC",
       "CP(C)(=O)OC", "CC(=O)OP(C)(C)=O", "CCN(=O)=O", "CC[N+](=O)[O-]", "CS(=O)(=O)Cl", "CSCl", "CCON", "CCOCl", "CNO",
       "CC(=O)Oc1ccccc1", "c1ccccc1OC", "CC(C)(C)OC(=O)NCC", "CCNC(=O)OCC", "NCC(=O)O", "CC(O)CN", "FC(F)(F)CO", "CC#N",
       "C=CCOC(C)=O", "CC(=O)N(C)C", "CS(C)=O", "CCS(=O)(=O)CC", "COc1ccc(Br)cc1", "CCn1cccc1", "CC[NH2+]CC", "C[SiH2]CC",
       "CC[N+](C)(C)C", "CCOC(=O)OCC", "CC(=O)SC", "CNC(=O)N", "OCC(O)CO", "CC(C)OS(C)(=O)=O", "ClCCBr", "C[Zn]C", "CCO[Si](C)(C)C",
       "CCNN", "CC=NO", "COO", "CCOOC", "CN=[N+]=[N-]", "CC(=O)ON", "c1ccncc1CO", "CC(=O)OCC(=O)OC",
       # explicit (isotope-labelled) hydrogen atoms: atom count != heavy-atom count
       "[2H]c1ccc(CC)cc1", "[2H]C([2H])([2H])OC(C)=O", "CC([2H])OC", "[3H]CCOC(C)=O", "[2H]OCC", "CC(=O)N([2H])CC",
       "[2H]C([2H])([2H])C(=O)OCC", "[2H]c1ccccc1OC", "[13CH3]OC(C)=O", "[2H]C(C)(C)SC"]


def ident_nostereo(mol):
    m = Chem.Mol(mol)
    Chem.RemoveStereochemistry(m)
    for a in m.GetAtoms():
        a.SetAtomMapNum(0)
    return Chem.MolToSmiles(m)


def counts(mol):
    heavy = {}
    for a in mol.GetAtoms():
        if a.GetSymbol() != "H":
            heavy[a.GetSymbol()] = heavy.get(a.GetSymbol(), 0) + 1
    return heavy


def cut(mol, bond):
    """Remove the bond, give each end one hydrogen, return the fragments as
    molecules with, per fragment, the index of the cut atom and the source index
    of the atom on the other side."""
    a, b = bond.GetBeginAtomIdx(), bond.GetEndAtomIdx()
    rw = Chem.RWMol(mol)
    rw.RemoveBond(a, b)
    for idx in (a, b):
        at = rw.GetAtomWithIdx(idx)
        if at.GetNoImplicit() or at.GetNumExplicitHs() > 0:
            at.SetNumExplicitHs(at.GetNumExplicitHs() + 1)
    try:
        Chem.SanitizeMol(rw)
    except Exception:
        return None
    frags = Chem.GetMolFrags(rw, asMols=False)
    if len(frags) != 2:
        return None
    out = []
    for atoms in frags:
        atoms = list(atoms)
        here = a if a in atoms else b
        other = b if here == a else a
        sub = Chem.RWMol(rw)
        for idx in sorted(set(range(rw.GetNumAtoms())) - set(atoms), reverse=True):
            sub.RemoveAtom(idx)
        sub = sub.GetMol()
        try:
            Chem.SanitizeMol(sub)
        except Exception:
            return None
        local = sorted(atoms).index(here)
        out.append({"mol": sub, "index": local, "nidx": other})
    return out


def cut2(mol, bond_a, bond_b):
    """Remove two bonds; return the fragment that lost both (two attachment points, possibly on one atom) as
    {"mol", "bounds": [(index in the fragment, source index of the atom on the other side), ...]} or None."""
    ends = [(bond_a.GetBeginAtomIdx(), bond_a.GetEndAtomIdx()), (bond_b.GetBeginAtomIdx(), bond_b.GetEndAtomIdx())]
    rw = Chem.RWMol(mol)
    for a, b in ends:
        rw.RemoveBond(a, b)
        for idx in (a, b):
            at = rw.GetAtomWithIdx(idx)
            if at.GetNoImplicit() or at.GetNumExplicitHs() > 0:
                at.SetNumExplicitHs(at.GetNumExplicitHs() + 1)
    try:
        Chem.SanitizeMol(rw)
    except Exception:
        return None
    frags = Chem.GetMolFrags(rw, asMols=False)
    if len(frags) != 3:
        return None
    for atoms in frags:
        atoms = sorted(atoms)
        here = []
        for a, b in ends:
            if a in atoms and b not in atoms:
                here.append((a, b))
            elif b in atoms and a not in atoms:
                here.append((b, a))
        if len(here) != 2:
            continue
        sub = Chem.RWMol(rw)
        for idx in sorted(set(range(rw.GetNumAtoms())) - set(atoms), reverse=True):
            sub.RemoveAtom(idx)
        sub = sub.GetMol()
        try:
            Chem.SanitizeMol(sub)
        except Exception:
            return None
        return {"mol": sub, "bounds": [(atoms.index(h), o) for h, o in here]}
    return None


def run_merge_multi(src, frag, bounds, use_smiles):
    """one compound with several boundaries, added in the given order"""
    cset = CompoundSet()
    if use_smiles:
        smi = Chem.MolToSmiles(frag)
        order = list(map(int, frag.GetProp("_smilesAtomOutputOrder")[1:-1].rstrip(",").split(",")))
        c = cset.add_compound(smi, src_mol=Chem.MolToSmiles(src))
        sorder = list(map(int, src.GetProp("_smilesAtomOutputOrder")[1:-1].rstrip(",").split(",")))
        for idx, nidx in bounds:
            c.add_boundary(order.index(idx), symbol=frag.GetAtomWithIdx(idx).GetSymbol(), neighbor_index=sorder.index(nidx),
                           neighbor_symbol=src.GetAtomWithIdx(nidx).GetSymbol())
    else:
        c = cset.add_compound(Chem.Mol(frag), src_mol=Chem.Mol(src))
        for idx, nidx in bounds:
            c.add_boundary(idx, symbol=frag.GetAtomWithIdx(idx).GetSymbol(), neighbor_index=nidx,
                           neighbor_symbol=src.GetAtomWithIdx(nidx).GetSymbol())
    return merge(cset)


RULE_FGS = ["ether", "thioether", "ester", "thioester", "amid", "keton", "aldehyde", "acid", "enol", "alcohol", "phenol"]
PATTERNS = ["P=O", "N#N"]
SRC_PATTERNS = ["C=C"]


def describe(src, frag, use_smiles, rng):
    """boundary descriptor as the rule conditions see it"""
    mol = frag["mol"]
    idx = frag["index"]
    d = {"sym": mol.GetAtomWithIdx(idx).GetSymbol(), "nsym": src.GetAtomWithIdx(frag["nidx"]).GetSymbol()}
    fgs = []
    for g in RULE_FGS:
        try:
            if fgutils.is_functional_group(src, g, frag["nidx"]):
                fgs.append(g)
        except Exception:
            pass
    d["fgs"] = fgs
    d["pats"] = [p for p in PATTERNS if fgutils.pattern_match(mol, idx, Chem.MolFromSmiles(p))[0]]
    d["srcpats"] = [p for p in SRC_PATTERNS if fgutils.pattern_match(src, frag["nidx"], Chem.MolFromSmiles(p))[0]]
    return d


def rule_tables():
    import importlib.resources
    import synrbl.SynMCSImputer as pkg

    def norm_cond(c):
        out = {}
        for key, name in (("atom", "atom"), ("neighbor_atom", "nb"), ("functional_group", "fg"), ("pattern", "pat"),
                          ("src_pattern", "src")):
            v = c.get(key)
            vals = [] if v is None else (v if isinstance(v, list) else [v])
            out[name + "_pos"] = [x for x in vals if not x.startswith("!")]
            out[name + "_neg"] = [x[1:] for x in vals if x.startswith("!")]
        return out

    mr = json.loads(importlib.resources.files(pkg).joinpath("merge_rules.json").read_text())
    er = json.loads(importlib.resources.files(pkg).joinpath("expand_rules.json").read_text())
    merge_rules = [{"name": r.get("name", "unnamed"), "c1": norm_cond(r.get("condition1", {})),
                    "c2": norm_cond(r.get("condition2", {})), "bond": r.get("bond") or "none",
                    "has_action": bool(r.get("action1") or r.get("action2"))} for r in mr]
    expand_rules = []
    for r in er:
        cm = oracle.parse(r["compound"]["smiles"])
        expand_rules.append({"name": r.get("name", "unnamed"), "c": norm_cond(r.get("condition", {})),
                             "smiles": r["compound"]["smiles"], "heavy": counts(cm),
                             "sym": cm.GetAtomWithIdx(r["compound"]["index"]).GetSymbol()})
    return {"ev": "rules", "merge": merge_rules, "expand": expand_rules}


def run_merge(src, frags, use_smiles, spectators=()):
    """spectators: (position, smiles) pairs of compounds without attachment point (catalysts, excess reagents) that
    are part of the same compound set; position = number of fragments added before them"""
    cset = CompoundSet()
    for n_f, f in enumerate(list(frags) + [None]):
        for pos, sp in spectators:
            if pos == n_f:
                cset.add_compound(sp, src_mol=sp)
        if f is None:
            break
        if use_smiles:
            # atom order of the written SMILES: pass the molecule re-parsed from its SMILES and map the index
            smi = Chem.MolToSmiles(f["mol"])
            order = list(map(int, f["mol"].GetProp("_smilesAtomOutputOrder")[1:-1].rstrip(",").split(",")))
            idx = order.index(f["index"])
            c = cset.add_compound(smi, src_mol=Chem.MolToSmiles(src))
            sorder = list(map(int, src.GetProp("_smilesAtomOutputOrder")[1:-1].rstrip(",").split(",")))
            nidx = sorder.index(f["nidx"])
            c.add_boundary(idx, symbol=f["mol"].GetAtomWithIdx(f["index"]).GetSymbol(), neighbor_index=nidx,
                           neighbor_symbol=src.GetAtomWithIdx(f["nidx"]).GetSymbol())
        else:
            c = cset.add_compound(Chem.Mol(f["mol"]), src_mol=Chem.Mol(src))
            c.add_boundary(f["index"], symbol=f["mol"].GetAtomWithIdx(f["index"]).GetSymbol(),
                           neighbor_index=f["nidx"], neighbor_symbol=src.GetAtomWithIdx(f["nidx"]).GetSymbol())
    res = merge(cset)
    return res


def main():
    out_file, tier, seed = sys.argv[1], sys.argv[2], int(sys.argv[3])
    logging.disable(logging.CRITICAL)
    rng = random.Random(seed)
    ev = []

    def add(e):
        e["id"] = len(ev) + 1
        ev.append(e)

    add(rule_tables())
    mols = GEN + [s for s in corpus.molecules(limit=250 if tier == "quick" else 3000, rng=rng)]
    npairs = 0
    max_pairs = 700 if tier == "quick" else 20000
    for smi in mols:
        src = oracle.parse(smi)
        if src is None or src.GetNumAtoms() < 2 or src.GetNumAtoms() > 60 or "." in smi:
            continue
        Chem.MolToSmiles(src)  # sets _smilesAtomOutputOrder
        bonds = [b for b in src.GetBonds() if b.GetBondType() == Chem.BondType.SINGLE and not b.IsInRing()
                 and b.GetBeginAtom().GetSymbol() != "H" and b.GetEndAtom().GetSymbol() != "H"]
        rng.shuffle(bonds)
        for b in bonds[: 4 if tier == "quick" else 12]:
            if npairs >= max_pairs:
                break
            frags = cut(src, b)
            if frags is None:
                continue
            npairs += 1
            use_smiles = npairs % 2 == 0
            order = [0, 1] if npairs % 4 < 2 else [1, 0]
            fr = [frags[k] for k in order]
            base = {"src": smi, "bond": [b.GetBeginAtomIdx(), b.GetEndAtomIdx()], "use_smiles": use_smiles,
                    "b": [describe(src, f, use_smiles, rng) for f in fr],
                    "frag_smiles": [Chem.MolToSmiles(f["mol"]) for f in fr],
                    "frag_heavy": [counts(f["mol"]) for f in fr]}
            # two-fragment mode
            for f in fr:
                Chem.MolToSmiles(f["mol"])
            e = dict(base, ev="merge2", raised="", rules=[], open=0, parses=False, same=False, heavy={}, ncomp=0)
            try:
                res = run_merge(src, fr, use_smiles)
                e["rules"] = [r.name for r in res.rules]
                e["open"] = len(res.boundaries)
                out = res.smiles
                e["out"] = out
                m = oracle.parse(out)
                if m is not None:
                    e["parses"] = True
                    e["heavy"] = counts(m)
                    e["same"] = ident_nostereo(m) == ident_nostereo(src)
                    e["ncomp"] = len(Chem.GetMolFrags(m))
            except Exception as ex:
                e["raised"] = "%s: %s" % (type(ex).__name__, str(ex)[:100])
            add(e)
            # single open fragment mode (each fragment on its own)
            for k, f in enumerate(fr):
                Chem.MolToSmiles(f["mol"])
                e1 = {"ev": "merge1", "src": smi, "use_smiles": use_smiles, "b": [base["b"][k]],
                      "frag_smiles": [base["frag_smiles"][k]], "frag_heavy": [base["frag_heavy"][k]],
                      "raised": "", "rules": [], "open": 0, "parses": False, "heavy": {}, "ncomp": 0, "attached": {}}
                try:
                    res = run_merge(src, [f], use_smiles)
                    e1["rules"] = [r.name for r in res.rules]
                    e1["open"] = len(res.boundaries)
                    e1["out"] = res.smiles
                    m = oracle.parse(res.smiles)
                    if m is not None:
                        e1["parses"] = True
                        e1["heavy"] = counts(m)
                        e1["ncomp"] = len(Chem.GetMolFrags(m))
                        # expected structures: fragment alone / fragment.X / fragment-X for X in O, I
                        fm = f["mol"]
                        exp = {"alone": ident_nostereo(fm)}
                        for X in ("O", "I"):
                            comb = Chem.CombineMols(fm, Chem.MolFromSmiles(X))
                            exp["apart_" + X] = ident_nostereo(comb)
                            rw = Chem.RWMol(comb)
                            at = rw.GetAtomWithIdx(f["index"])
                            if at.GetNumExplicitHs() > 0:
                                at.SetNumExplicitHs(at.GetNumExplicitHs() - 1)
                            rw.AddBond(f["index"], fm.GetNumAtoms(), Chem.BondType.SINGLE)
                            try:
                                Chem.SanitizeMol(rw)
                                exp["bonded_" + X] = ident_nostereo(rw)
                            except Exception:
                                exp["bonded_" + X] = "?"
                        got = ident_nostereo(m)
                        e1["attached"] = {k2: (v == got) for k2, v in exp.items()}
                except Exception as ex:
                    e1["raised"] = "%s: %s" % (type(ex).__name__, str(ex)[:100])
                add(e1)
    # compound sets that also hold compounds WITHOUT attachment point (spectators), before / between / after the fragments
    nspect = 0
    # (no alcohols and no water: compound rules turn an alcohol "catalyst" into a reaction partner and drop water)
    pool_s = ["N", "Cl", "Br", "CCOCC", "c1ccncc1", "CS(C)=O", "[Na+]", "CC#N"]
    for smi in mols:
        if nspect >= (200 if tier == "quick" else 4000):
            break
        src = oracle.parse(smi)
        if src is None or src.GetNumAtoms() < 3 or src.GetNumAtoms() > 40 or "." in smi:
            continue
        Chem.MolToSmiles(src)
        bonds = [b for b in src.GetBonds() if b.GetBondType() == Chem.BondType.SINGLE and not b.IsInRing()
                 and b.GetBeginAtom().GetSymbol() != "H" and b.GetEndAtom().GetSymbol() != "H"]
        if not bonds:
            continue
        frags = cut(src, rng.choice(bonds))
        if frags is None:
            continue
        for f in frags:
            Chem.MolToSmiles(f["mol"])
        for mode in range(2):
            fr = frags if mode == 0 else [frags[rng.randrange(2)]]
            k = rng.choice([1, 2, 2, 3])
            sp = [(rng.choice(range(len(fr) + 1)) if rng.random() < 0.5 else (0 if rng.random() < 0.5 else len(fr)),
                   rng.choice(pool_s)) for _ in range(k)]
            if rng.random() < 0.5:
                sp = [(sp[0][0], x[1]) for x in sp]         # all at one place: adjacent spectators
            nspect += 1
            use_smiles = nspect % 2 == 0
            sm = [oracle.parse(x[1]) for x in sp]
            e = {"ev": "merge_s", "src": smi, "use_smiles": use_smiles, "b": [describe(src, f, use_smiles, rng) for f in fr],
                 "frag_smiles": [Chem.MolToSmiles(f["mol"]) for f in fr] + [x[1] for x in sp],
                 "frag_heavy": [counts(f["mol"]) for f in fr] + [counts(m_) for m_ in sm],
                 "spectators": [[p_, x_] for p_, x_ in sp], "raised": "", "rules": [], "open": 0, "parses": False, "heavy": {},
                 "ncomp": 0, "spectators_kept": False}
            try:
                res = run_merge(src, fr, use_smiles, spectators=sp)
                e["rules"] = [r.name for r in res.rules]
                e["open"] = len(res.boundaries)
                e["out"] = res.smiles
                m = oracle.parse(res.smiles)
                if m is not None:
                    e["parses"] = True
                    e["heavy"] = counts(m)
                    comps = [ident_nostereo(x) for x in Chem.GetMolFrags(m, asMols=True)]
                    e["ncomp"] = len(comps)
                    want = [ident_nostereo(x) for x in sm]
                    e["spectators_kept"] = all(comps.count(w) >= want.count(w) for w in want)
            except Exception as ex:
                e["raised"] = "%s: %s" % (type(ex).__name__, str(ex)[:100])
            add(e)
    # an end fragment (one attachment point) together with a middle fragment (two): the "unequal number of
    # boundaries" branch expands each on its own and joins them; the rule list must name every application
    nuneq = 0
    for smi in mols:
        if nuneq >= (150 if tier == "quick" else 3000):
            break
        src = oracle.parse(smi)
        if src is None or src.GetNumAtoms() < 4 or src.GetNumAtoms() > 40 or "." in smi:
            continue
        Chem.MolToSmiles(src)
        bonds = [b for b in src.GetBonds() if b.GetBondType() == Chem.BondType.SINGLE and not b.IsInRing()
                 and b.GetBeginAtom().GetSymbol() != "H" and b.GetEndAtom().GetSymbol() != "H"]
        if len(bonds) < 2:
            continue
        ba, bb = rng.sample(bonds, 2)
        mid = cut2(src, ba, bb)
        ends = cut(src, ba)
        if mid is None or ends is None:
            continue
        bb_atoms = {bb.GetBeginAtomIdx(), bb.GetEndAtomIdx()}
        # the end piece of the first cut = the one that does not hold the second bond
        end = None
        for f in ends:
            other = {ba.GetBeginAtomIdx(), ba.GetEndAtomIdx()} - {f["nidx"]}
            # f["nidx"] is the neighbour OUTSIDE the fragment; the fragment holds the other end of ba
            if f["mol"].GetNumAtoms() + mid["mol"].GetNumAtoms() < src.GetNumAtoms() + 1 and f["nidx"] in \
                    {n_ for _, n_ in mid["bounds"]} | {ba.GetBeginAtomIdx(), ba.GetEndAtomIdx()}:
                end = f
        if end is None or end["mol"].GetNumAtoms() >= src.GetNumAtoms() - mid["mol"].GetNumAtoms() + 1 and False:
            continue
        # keep only true end pieces: end + middle together must not exceed the molecule
        if end["mol"].GetNumAtoms() + mid["mol"].GetNumAtoms() > src.GetNumAtoms():
            continue
        nuneq += 1
        for order in (0,):     # the first compound must have ONE attachment point (documented NotImplementedError otherwise)
            e = {"ev": "merge_u", "src": smi, "use_smiles": False, "b": [],
                 "frag_smiles": [Chem.MolToSmiles(end["mol"]), Chem.MolToSmiles(mid["mol"])],
                 "frag_heavy": [counts(end["mol"]), counts(mid["mol"])], "raised": "", "rules": [], "open": 0,
                 "parses": False, "heavy": {}, "ncomp": 0, "order": order}
            try:
                cset = CompoundSet()

                def add_end():
                    c = cset.add_compound(Chem.Mol(end["mol"]), src_mol=Chem.Mol(src))
                    c.add_boundary(end["index"], symbol=end["mol"].GetAtomWithIdx(end["index"]).GetSymbol(),
                                   neighbor_index=end["nidx"], neighbor_symbol=src.GetAtomWithIdx(end["nidx"]).GetSymbol())

                def add_mid():
                    c = cset.add_compound(Chem.Mol(mid["mol"]), src_mol=Chem.Mol(src))
                    for idx, nidx in mid["bounds"]:
                        c.add_boundary(idx, symbol=mid["mol"].GetAtomWithIdx(idx).GetSymbol(), neighbor_index=nidx,
                                       neighbor_symbol=src.GetAtomWithIdx(nidx).GetSymbol())
                (add_end(), add_mid()) if order == 0 else (add_mid(), add_end())
                res = merge(cset)
                e["rules"] = [r.name for r in res.rules]
                e["open"] = len(res.boundaries)
                e["out"] = res.smiles
                m = oracle.parse(res.smiles)
                if m is not None:
                    e["parses"] = True
                    e["heavy"] = counts(m)
                    e["ncomp"] = len(Chem.GetMolFrags(m))
            except Exception as ex:
                e["raised"] = "%s: %s" % (type(ex).__name__, str(ex)[:100])
            add(e)
    # fragments with two attachment points (two bonds cut), completed on their own, boundaries in both orders
    nmulti = 0
    max_multi = 250 if tier == "quick" else 5000
    for smi in mols:
        if nmulti >= max_multi:
            break
        src = oracle.parse(smi)
        if src is None or src.GetNumAtoms() < 4 or src.GetNumAtoms() > 50 or "." in smi:
            continue
        Chem.MolToSmiles(src)
        bonds = [b for b in src.GetBonds() if b.GetBondType() == Chem.BondType.SINGLE and not b.IsInRing()
                 and b.GetBeginAtom().GetSymbol() != "H" and b.GetEndAtom().GetSymbol() != "H"]
        if len(bonds) < 2:
            continue
        for _ in range(2 if tier == "quick" else 5):
            ba, bb = rng.sample(bonds, 2)
            mid = cut2(src, ba, bb)
            if mid is None:
                continue
            nmulti += 1
            Chem.MolToSmiles(mid["mol"])
            for rev in (False, True):
                bounds = list(reversed(mid["bounds"])) if rev else list(mid["bounds"])
                use_smiles = (nmulti + rev) % 2 == 0
                descr = [describe(src, {"mol": mid["mol"], "index": i_, "nidx": n_}, use_smiles, rng) for i_, n_ in bounds]
                e = {"ev": "merge1m", "src": smi, "use_smiles": use_smiles, "b": descr,
                     "frag_smiles": [Chem.MolToSmiles(mid["mol"])], "frag_heavy": [counts(mid["mol"])], "raised": "",
                     "rules": [], "open": 0, "parses": False, "heavy": {}, "ncomp": 0, "reversed": rev}
                try:
                    res = run_merge_multi(src, mid["mol"], bounds, use_smiles)
                    e["rules"] = [r.name for r in res.rules]
                    e["open"] = len(res.boundaries)
                    e["out"] = res.smiles
                    m = oracle.parse(res.smiles)
                    if m is not None:
                        e["parses"] = True
                        e["heavy"] = counts(m)
                        e["ncomp"] = len(Chem.GetMolFrags(m))
                except Exception as ex:
                    e["raised"] = "%s: %s" % (type(ex).__name__, str(ex)[:100])
                add(e)
    common.write_ndjson(out_file, ev)
    m2 = [e for e in ev if e["ev"] == "merge2"]
    print(json.dumps({"events": len(ev), "pairs": npairs, "two_boundary_fragments": nmulti, "sets_with_spectators": nspect, "unequal_boundary_sets": nuneq, "reconstructed": sum(1 for e in m2 if e["same"]),
                      "raised": sum(1 for e in ev if e.get("raised")),
                      "rules_seen": sorted({r for e in ev if e["ev"] != "rules" for r in e["rules"]})}))


if __name__ == "__main__":
    main()
