"""Replay of the Constrain.tla states into the real RuleConstraint (shared by C02 and C14)."""
import json
import os

from harness import common


def run(rep, prop, clauses):
    res, states = common.tlc_dump_states("Constrain", "MC_Constrain_replay.cfg", workers=4)
    rep.add_model(res, role="enumeration of (input tokens, appended tokens) product sides for replay")
    wd = common.workdir("constrain_%s_%d" % (prop, os.getpid()), fresh=True)
    sf, lg = os.path.join(wd, "s.json"), os.path.join(wd, "c.ndjson")
    with open(sf, "w") as f:
        json.dump([{"inp": s["inp"], "added": s["added"]} for s in states], f)
    common.run_driver("drv_constrain", [sf, lg])
    n, bad, st = common.validate_trace("Constrain_Trace", lg)
    rep.add_trace_stats(n, st)
    ev = {e["id"]: e for e in common.read_ndjson(lg)}
    drift = prefixed = 0
    for eid, clause in bad:
        e = ev[eid]
        if clause.startswith("DRIFT_"):
            drift += 1
        elif clause.endswith("/marker-prefixed-input"):
            prefixed += 1     # function-level deviation behind the C02 finding; the pipeline's validators revert most of it
        elif clause in clauses:
            rep.fail(clause, "RuleConstraint products=%s" % e["products_in"], group="RuleConstraint/" + clause,
                     detail={"products_in": e["products_in"], "tokens_out": e["out"]},
                     replay={"inputs": [], "clause": clause})
    rep.extra["constrain_states_replayed"] = len(ev)
    rep.extra["constrain_model_drift_count"] = drift
    rep.extra["constrain_marker_prefixed_inputs_destroyed_at_function_level"] = prefixed
    import shutil
    shutil.rmtree(wd, ignore_errors=True)
