"""Seeded generators of reactions with known ground truth."""
import random

from rdkit import Chem

from harness import oracle, corpus


def reverse(rsmi):
    l, r = rsmi.split(">>")
    return r + ">>" + l


def union(a, b):
    la, ra = a.split(">>")
    lb, rb = b.split(">>")
    return la + "." + lb + ">>" + ra + "." + rb


def double(a):
    return union(a, a)


def drop_molecule(rsmi, side, idx):
    l, r = rsmi.split(">>")
    parts = (l if side == 0 else r).split(".")
    if len(parts) < 2:
        return None
    del parts[idx % len(parts)]
    return (".".join(parts) + ">>" + r) if side == 0 else (l + ">>" + ".".join(parts))


def respell(smi, rng):
    """Random equivalent spelling of one molecule (atom order), maps kept off."""
    m = oracle.parse(smi)
    if m is None:
        return smi
    try:
        return Chem.MolToSmiles(m, doRandom=True, canonical=False)
    except Exception:
        return smi


def add_maps(smi, rng, start=1):
    m = oracle.parse(smi)
    if m is None:
        return smi, start
    idx = list(range(m.GetNumAtoms()))
    rng.shuffle(idx)
    for k, j in enumerate(idx):
        m.GetAtomWithIdx(j).SetAtomMapNum(start + k)
    return Chem.MolToSmiles(m), start + len(idx)


SMALL_BYPRODUCTS = ["O", "Cl", "Br", "N", "CO", "CC(=O)O", "[Na+].[Cl-]", "[H][H]", "CCO", "I", "F", "O=S=O", "OO"]

BALANCED_SPECIAL = [
    "[Na+].[Cl-]>>[Na]Cl",
    "[Ag+].[Cl-]>>[Ag]Cl",
    "CC(=O)[O-].[H+]>>CC(=O)O",
    "[U](F)(F)(F)(F)(F)F>>[U](F)(F)(F)(F)(F)F",
    "[Th].O=O>>O=[Th]=O",
    "O=[U+2]=O.[Cl-].[Cl-]>>O=[U](Cl)(Cl)=O",
    "[2H]O[2H]>>[2H]O[2H]",
    "[13CH3]O.Cl>>[13CH3]Cl.O",
    "C[N+](C)(C)CC(=O)[O-]>>C[N+](C)(C)CC([O-])=O",
    "CCBr.[OH-]>>CCO.[Br-]",
    "N[C@@H](C)C(=O)O>>N[C@@H](C)C(=O)O",
    "[H][H].C=C>>CC",
    "O.O>>O.O",
    "CC(=O)O.CC(=O)O.OCCO>>CC(=O)OCCOC(C)=O.O.O",
    "[Pu](F)(F)(F)F.FF>>[Pu](F)(F)(F)(F)(F)F",
]

def element_swaps(limit=None, rng=None):
    """one element replaced by its neighbour in the periodic table, everything else equal: unbalanced however
    similar the symbols look (Am / Cm, Np / Pu, Nb / Mo ...)"""
    from rdkit import Chem
    pt = Chem.GetPeriodicTable()
    out = []
    for z in range(3, 118):
        a, b = pt.GetElementSymbol(z), pt.GetElementSymbol(z + 1)
        out.append("[%s]>>[%s]" % (a, b))
        if z % 3 == 0:
            out.append("[%s+3].[Cl-].[Cl-].[Cl-]>>Cl[%s](Cl)Cl" % (a, b))
    if rng is not None:
        rng.shuffle(out)
    return out[:limit] if limit else out


UNBALANCED_SPECIAL = [
    # MCS-stage reactions whose GIVEN molecules carry a group the tautomer standardiser would rewrite (enol,
    # hemiketal, gem-diol): only the imputed compound may be standardised, the given ones stay as they are
    "OC=CCOC(C)=O>>OC=CCO",
    "CC(=O)OCC=CO>>OCC=CO",
    "CC(=O)OCC(O)=C>>OCC(O)=C",
    "CC(O)(OC)CCOC(C)=O>>CC(O)(OC)CCO",
    "OC(O)CCOC(C)=O>>OC(O)CCO",
    "CC(=O)OCC.C=CO>>CCO.C=CO",
    "CC(=O)OCC.CC(O)(O)C>>CCO.CC(O)(O)C",
    "CCC(=O)OCC=C(C)O>>OCC=C(C)O",
    "COC(=O)CC=CO>>OC(=O)CC=CO",
    # equal in every element, different in net charge (negative and positive, one or several units)
    "[I-].[I-]>>II",
    "C[S-].C[S-]>>CSSC",
    "O=O>>[O-][O-]",
    "O=C1C=CC(=O)C=C1>>[O-]c1ccc([O-])cc1",
    "[Cu+].[Cl-].[Cl-]>>[Cu+2].[Cl-].[Cl-]",
    "[Fe+2]>>[Fe+3]",
    "[S-2]>>[S-]",
    "C[O-].C[O-]>>COOC",
    "[U]>>[Th]",
    "[Pu]>>[Am]",
    "[U](F)(F)(F)F>>[Np](F)(F)(F)F",
    "CC(=O)[O-]>>CC(=O)O",
    "CCBr.[OH-]>>CCO",
    "CCBr.[OH-].[OH-]>>CCO",
    "[Ag+].[Ag+].[Cl-]>>[Ag].[Ag+].[Cl-]",
    "CC(=O)OCC.[OH-].[OH-]>>CC(=O)[O-].CCO",
    "[Na+].[Cl-].CCBr>>CCCl",
    "CC[N+](C)(C)C.[Br-].[Br-]>>CC[N+](C)(C)C.[Br-]",
    "CC>>CCC",
    "C>>CC.C",
    "CCO>>CCOCC",
    "c1ccccc1>>c1ccccc1Cl",
    "CC(=O)Cl.N>>CC(N)=O",
    "CC(=O)OCC>>CCO",
    "CC(=O)OC>>CC(=O)O",
    "CCC(=O)OC>>CO",
    "CS(=O)(=O)OC.CC(=O)OC>>CC(=O)O",
    "BrBr>>Cl",
    # MCS imputation succeeds but an element without any rule stays unbalanced (declined at the very end)
    "CC(=O)OCC>>CC(=O)[O-].[Cs+]", "COC(=O)c1ccccc1>>[O-]C(=O)c1ccccc1.[Cs+]", "CCOC(=O)CC>>CCC(=O)O.[Ag]",
    "CC(=O)OC>>CC(=O)[O-].[Rb+]", "CC(=O)Nc1ccccc1>>Nc1ccccc1.[Tl+]", "CCOC(C)=O.[Au]>>CC(=O)O", "CC(=O)OCC.[Xe]>>CCO",
    "CC(=O)OCC>>CCO.[Se]", "CC(=O)OCC>>CC(=O)O.[Cd+2]", "CC(=O)OC(C)C>>CC(C)O.[Te]",
    # rule-based completion possible only partly / leftover after the second pass
    "CCCl.[Cs]>>CC", "CCBr>>CCO.[Ag+]", "CC(=O)Cl.CO>>CC(=O)OC.[Rb+]", "CCO.[Sr]>>CC=O",
]


def redox_triggers(rng, n):
    """Alcohol / carbonyl pairs that reach the reagent post-processing. One class per line; the classes are
    served round-robin so that a small n still holds every class (every reagent template: H2, borohydride,
    cyanoborohydride, aluminium hydride for the reductions, PCC and the two permanganate templates for the
    oxidations)."""
    alkyls = ["C", "CC", "CCC", "CC(C)", "c1ccccc1", "C1CCCCC1", "CCCC", "c1ccc(Cl)cc1", "COC", "CCOC"]
    classes = [
        "{a}CO>>{a}C=O",                  # primary alcohol -> aldehyde
        "{a}CO>>{a}C(=O)O",               # primary alcohol -> acid
        "{a}CO.O>>{a}C(=O)O",
        "{a}C=O>>{a}C(=O)O",              # aldehyde -> acid
        "{a}C(O)C>>{a}C(=O)C",            # secondary alcohol -> ketone
        "{a}C=O>>{a}CO",                  # aldehyde reduction
        "{a}C(=O)C>>{a}C(O)C",            # ketone reduction
        "{a}C(=O)OC>>{a}CO.CO",           # ester reduction, carbon balanced (rule-based route)
        "{a}C(=O)O>>{a}CO.O",             # acid reduction
        "{a}C(=O)Cl>>{a}CO.Cl",           # acyl chloride reduction
        "{a}C(N)=O>>{a}CN.O",             # amide reduction
        "{a}C(=O)OC>>{a}CO",              # the same with a carbon deficit (MCS route first)
        "{a}C(=O)O>>{a}CO",
        "{a}C(=O)Cl>>{a}CO",
        "{a}C(N)=O>>{a}CN",
        "{a}CO.[O]>>{a}C=O.O",
        "{a}C=O.[H][H]>>{a}CO",
        "{a}C#N>>{a}CN",                  # nitrile reduction ("other")
        "{a}[N+](=O)[O-]>>{a}N.O.O",      # nitro reduction
    ]
    per_class = []
    for c in classes:
        al = list(alkyls)
        rng.shuffle(al)
        per_class.append([c.format(a=a) for a in al])
    out = []
    k = 0
    while len(out) < n and any(per_class):
        lst = per_class[k % len(per_class)]
        if lst:
            out.append(lst.pop())
        k += 1
    return out


def marker_inputs():
    """Inputs whose text contains the substrings the pipeline uses as markers."""
    return [
        "CC=O.[H][H]>>CCO",
        "C=C.[H][H]>>CC",
        "CC(=O)C.[H][H]>>CC(O)C",
        "[H]C([H])([H])O>>CO",
        "CC.[H]C([H])=O>>CCC=O",
        "CCO.OO>>CC=O.O.O",
        "CCOO>>CCO",
        "CC(C)OO.CC=C>>CC(C)O.CC1CO1",
        "[Na].CCO>>CC[O-].[Na+]",
        "[Na+].[H-].CCO>>CC[O-].[Na+].[H][H]",
        "[Li]CCCC.CC=O>>CCCCC(C)O",
        "[K].CO>>C[O-].[K+]",
        "CC=O.[Na+].[BH4-]>>CCO",
        "CC(=O)C.[Li+].[AlH4-]>>CC(C)O",
        "CCO.[O-][Mn](=O)(=O)=O.[K+]>>CC(=O)O",
        "OO.CSC>>CS(C)=O",
        "OO.CSC>>CS(C)=O.O",
        # hydrogen peroxide / hydroperoxides / peracids on either side (the '.OO' marker)
        "CCOO>>CC.OO", "CCCl.N>>CCN.OO", "CC(C)OO>>CC(C)O", "CCCl.OOC(C)=O>>CCO", "CCN.OOC>>CCNO", "C=C.OO>>OCCO",
        "c1ccccc1N.OO>>c1ccccc1N=O", "CS.OO>>CS(=O)(=O)O", "CC(=O)OO.CC=C>>CC1CO1.CC(=O)O", "CCBr.OO>>CCO",
        "OO.CCI>>CCO", "CC(=O)Cl.OO>>CC(=O)OO",
        # molecular hydrogen given by the user next to reducible groups (the '.[H]' marker)
        "CC(=O)O.[H][H].[H][H]>>CCO", "CC(=O)Cl.[H][H].[H][H]>>CCO", "CC(=O)OC.[H][H].[H][H]>>CCO.CO",
        "CCC(=O)O.[H][H].[H][H]>>CCCO", "O=C(O)c1ccccc1.[H][H].[H][H]>>OCc1ccccc1", "CC(N)=O.[H][H].[H][H]>>CCN",
        "CCO.CC(=O)O>>CCOC(C)=O.[H][H]", "CCS.CCS>>CCSSCC.[H][H].O", "CC#N.[H][H].[H][H]>>CCN", "CC=O.[H][H].[H][H]>>CC",
        "C=CC=O.[H][H].[H][H]>>CCCO", "CCCl.[H][H]>>CC", "[H][H].CC(=O)Cl.[H][H]>>CCO",
        # alkali metals / hydride written as atoms
        "CCCl.[Na]>>CC", "CCBr.[Li]CCCC>>CCCCCC", "CC(=O)C.[H-].[Na+]>>CC(O)C", "CCO.[K]>>CC[O-].[K+]",
    ]


def derived(balanced, rng, n_each):
    """Derived reactions with known ground truth from curated balanced ones."""
    out = {"reverse": [], "union": [], "double": [], "drop_small": [], "drop_any": []}
    pool = corpus.sample(balanced, n_each * 4, rng)
    for s in pool[:n_each]:
        out["reverse"].append(reverse(s))
    for a, b in zip(pool[n_each:2 * n_each], pool[2 * n_each:3 * n_each]):
        out["union"].append(union(a, b))
    for s in pool[:max(1, n_each // 2)]:
        out["double"].append(double(s))
    for s in pool:
        l, r = s.split(">>")
        for side, txt in ((0, l), (1, r)):
            parts = txt.split(".")
            for j, p in enumerate(parts):
                m = oracle.parse(p)
                if m is None or len(parts) < 2:
                    continue
                if m.GetNumHeavyAtoms() <= 3 and len(out["drop_small"]) < n_each:
                    out["drop_small"].append(drop_molecule(s, side, j))
                elif len(out["drop_any"]) < n_each // 2 and rng.random() < 0.3:
                    out["drop_any"].append(drop_molecule(s, side, j))
    return out


def tied_completions(limit=40, rng=None):
    """Reactions whose imbalance has several equally short decompositions into compounds of the shipped rule
    database (e.g. NH3 + OH- = H2O + NH2-): pairs of compound pairs with the same total composition and charge,
    computed with the RDKit oracle. Each tie {a, b} = {c, d} gives reactions in which a spectator carries the
    rest, with the compounds missing on either side. Which decomposition the rule-based stage takes is its own
    business; that the choice does not depend on the spelling is what C14 asks."""
    import gzip
    import json as _json
    import os as _os
    from harness import common as _common, oracle as _oracle
    path = _os.path.join(_common.REPO, "synrbl/SynRuleImputer/rules_manager.json.gz")
    try:
        with gzip.open(path, "rt") as f:
            db = _json.load(f)
    except OSError:
        with open(path) as f:
            db = _json.load(f)
    comps = []
    for rec in db:
        c = _oracle.comp(rec["smiles"])
        if c is None:
            continue
        d, q = c
        heavy = sum(n for el, n in d.items() if el != "H")
        if heavy <= 3:
            comps.append((rec["smiles"], tuple(sorted(d.items())), q))
    sums = {}
    for i in range(len(comps)):
        for j in range(i, len(comps)):
            tot = {}
            for el, n in comps[i][1] + comps[j][1]:
                tot[el] = tot.get(el, 0) + n
            key = (tuple(sorted(tot.items())), comps[i][2] + comps[j][2])
            sums.setdefault(key, []).append((comps[i][0], comps[j][0]))
    ties = [v for v in sums.values() if len(v) >= 2]
    ties.sort(key=lambda v: (len(v[0][0]) + len(v[0][1]), v))
    out = []
    spect = ["CCO", "CC(=O)O", "c1ccccc1", "CC(C)=O", "CCN"]
    for k, v in enumerate(ties):
        a, b = v[k % len(v)]
        s = spect[k % len(spect)]
        out.append("%s.%s.%s>>%s" % (s, a, b, s))       # compounds missing among the products
        out.append("%s>>%s.%s.%s" % (s, a, s, b))       # ... among the reactants
    seen = set()
    out = [r for r in out if not (r in seen or seen.add(r))]
    if rng is not None:
        rng.shuffle(out)
    return out[:limit]


def dot_spanning(rng=None, limit=None):
    """SMILES in which ring-closure labels span a dot: one molecule (or several) although the text has
    more pieces.  Families: 1..3 closures between two pieces, one- and two-digit (%nn) labels and their
    mixtures, closures distributed over several pieces, pieces that also carry a closed ring of their
    own, spectators next to them.  Every string is checked with RDKit (parsable as a whole, at least
    one piece not parsable alone) before it is returned."""
    from rdkit import Chem, RDLogger
    RDLogger.DisableLog("rdApp.*")
    label_sets = [("1",), ("1", "2"), ("%10",), ("%10", "%11"), ("1", "%12"), ("3", "4", "5"), ("9", "%99")]
    heads = ["C", "N", "[Si]", "c1ccccc1C", "C(C)", "OC(=O)C"]
    out = []
    for labs in label_sets:
        for h in heads:
            if len(labs) == 3 and h in ("N", "OC(=O)C", "C(C)", "c1ccccc1C"):
                continue
            a = h + "".join(labs) + "CC" if not h.endswith(")") else "C" + "".join(labs) + "(C)C"
            # all labels closed on one chain piece, one label per atom
            b = "".join("C" + l for l in labs) + "C"
            out.append(a + "." + b)
            out.append(b + "." + a)
            # labels closed on separate pieces
            if len(labs) >= 2:
                out.append(a + "." + ".".join("C" + l + "O" for l in labs))
            # both ends carry all labels on one atom (a multiple bond is not expressible: use two atoms)
            out.append(a + "." + b + ".[Na+].[Cl-]")
            out.append("O." + a + "." + b)
            # a piece with its own closed ring as well
            out.append("C1CC1" + h + "".join(labs[:1]) + "." + "C" + labs[0] + "CC")
    # the same label reused after it was closed across a dot
    out += ["C1.C1C1.C1", "C1CC.C1CC1.C1", "C12CC.C1CC2", "C%10CC.C%10", "C12.C12", "N1.C1C2.O2", "C1C2.C1.C2",
            "C%10%11.C%10.C%11", "C1(C2).C1.C2C", "[CH2]1C.[CH2]1C", "C1.[Na+].C1", "C1.O.C1.O"]
    good = []
    seen = set()
    for s in out:
        if s in seen:
            continue
        seen.add(s)
        if Chem.MolFromSmiles(s) is None:
            continue
        if all(Chem.MolFromSmiles(p) is not None for p in s.split(".")):
            continue
        good.append(s)
    if rng is not None:
        rng.shuffle(good)
    return good[:limit] if limit else good
