"""Stage-level conformance: projects the hook snapshots of a pipeline recording into
per-row histories and validates them against Pipeline.tla (Pipeline_Trace.tla)."""
import json
import os

from harness import common, oracle

STAGES = ["preprocess", "input_validate", "rule_based_1", "rb_validate", "mcs_search", "mcs_impute", "mcs_validate",
          "post_process", "rule_based_2", "final_validate", "confidence"]


def _sign(x):
    return (x > 0) - (x < 0)


def abstract_rxn(rsmi):
    f = oracle.reaction_facts(rsmi)
    if not f["parses"]:
        return None
    dC = _sign(f["lcomp"].get("C", 0) - f["rcomp"].get("C", 0))
    keys = (set(f["lcomp"]) | set(f["rcomp"])) - {"C"}
    ds = [f["lcomp"].get(k, 0) - f["rcomp"].get(k, 0) for k in keys] + [f["lq"] - f["rq"]]
    if all(d == 0 for d in ds):
        dX = 0
    elif all(d >= 0 for d in ds):
        dX = 1
    elif all(d <= 0 for d in ds):
        dX = -1
    else:
        dX = 2
    return {"dC": dC, "dX": dX}, (f["l"], f["r"])


def histories(stages_file, col="reaction"):
    """yield (run, batch, row id, [snapshot row dicts in stage order], threshold)"""
    run = None
    groups = []
    cur = None
    with open(stages_file) as f:
        for line in f:
            e = json.loads(line)
            if e["ev"] == "run_begin":
                run = e.get("run")
            elif e["ev"] == "stage":
                if e["name"] == "preprocess":
                    cur = {"run": run, "thr": e.get("threshold", 0), "col": e.get("reaction_col", col), "stages": {}}
                    groups.append(cur)
                if cur is not None:
                    cur["stages"][e["name"]] = e["rows"]
    for g in groups:
        if any(s not in g["stages"] for s in STAGES):
            continue   # the pipeline raised in this batch
        n = len(g["stages"]["preprocess"])
        for k in range(n):
            yield g, k


def build(stages_file, out_file, limit=None):
    events = []
    skipped = 0
    for g, k in histories(stages_file):
        col = g["col"]
        snaps = []
        ok = True
        first = g["stages"]["preprocess"][k]
        base = abstract_rxn(first.get(col, ""))
        if base is None:
            skipped += 1
            continue
        inp_abs, inp_mols = base
        final_conf = -1
        for name in STAGES:
            row = g["stages"][name][k]
            ab = abstract_rxn(row.get(col, ""))
            if ab is None:
                ok = False
                break
            cur_abs, cur_mols = ab
            issue = row.get("issue", "ABSENT")
            if not isinstance(issue, str):
                issue = "ABSENT"
            c = row.get("confidence")
            # 1e-9 units (fits TLC's 32-bit integers for values <= 1): the reported float32 0.39199999 must stay
            # below a threshold 0.392 typed by a user
            conf = -1 if c is None or isinstance(c, str) or c != c else int(round(float(c) * 1e9))
            final_conf = conf
            snaps.append({"name": name, "cur": cur_abs, "same": cur_mols == inp_mols, "solved": bool(row.get("solved", False)),
                          "by": row.get("solved_by") if isinstance(row.get("solved_by"), str) else "ABSENT",
                          "issue": "absent" if issue == "ABSENT" else ("empty" if issue == "" else "text"),
                          "mcs": "absent" if "mcs" not in row else ("none" if row["mcs"] is None else "present"),
                          # before the first validation the column can only hold what arrived with the input row
                          # (pass-through data, not pipeline state)
                          "clabel": "unset" if name == "preprocess" else row.get("carbon_balance_check", "unset"),
                          "ulabel": row.get("unbalance_col", "unset"),
                          "conf": conf})
        if not ok:
            skipped += 1
            continue
        events.append({"run": g["run"], "pos": k, "input": first.get(col, ""), "inp": inp_abs,
                       "thr": int(round(float(g["thr"]) * 1e9)), "conf": max(final_conf, 0), "stages": snaps})
        if limit and len(events) >= limit:
            break
    common.write_ndjson(out_file, events)
    return events, skipped


def stage_paths(events):
    """distinct stage paths: the sequence of stages at which (solved, method, issue class, mcs key,
    reaction = input, balanced) changed, with the new value"""
    import collections
    c = collections.Counter()
    ex = {}
    for e in events:
        path, prev = [], None
        for s in e["stages"]:
            key = (s["solved"], s["by"], s["issue"], s["mcs"], s["same"], s["cur"] == {"dC": 0, "dX": 0})
            if key != prev:
                path.append("%s:%s/%s/%s/%s/%s/%s" % (s["name"], "S" if key[0] else "u", key[1], key[2], key[3],
                                                   "input" if key[4] else "edited", "bal" if key[5] else "unb"))
            prev = key
        p = " > ".join(path[1:])
        c[p] += 1
        ex.setdefault(p, e["input"])
    return [{"path": p, "rows": n, "example": ex[p]} for p, n in c.most_common()]


def validate(stages_file, wd, limit=None):
    """Returns dict with rows, drift list (rows whose history is not a behaviour of Pipeline.tla)."""
    out = os.path.join(wd, "stage_histories.ndjson")
    events, skipped = build(stages_file, out, limit)
    if not events:
        return {"rows": 0, "drift": [], "skipped": skipped, "states": (0, 0), "paths": []}
    n, reached, st = common.validate_trace("Pipeline_Trace", out, xmx="12g", timeout=3 * 3600)
    drift = []
    for e, got in zip(events, reached):
        if got < len(e["stages"]):
            nxt = e["stages"][got]
            prev = e["stages"][got - 1] if got > 0 else None
            drift.append({"input": e["input"], "run": e["run"], "stuck_before_stage": nxt["name"], "snapshot": nxt,
                          "previous_snapshot": prev})
    return {"rows": len(events), "drift": drift, "skipped": skipped, "states": st, "paths": stage_paths(events)}
