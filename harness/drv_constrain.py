"""Replays the states of Constrain.tla into the real RuleConstraint.reduction_oxidation_rules_modify."""
import copy
import json
import sys

from harness import common
from synrbl.SynRuleImputer.synthetic_rule_constraint import RuleConstraint

TEXT = {("", "CC"): "CC", ("", "O"): "O", ("", "CCO"): "CCO", ("[H]", ""): "[H]", ("[H]", "[H]"): "[H][H]",
        ("[H]", "C"): "[H]C", ("[O]", ""): "[O]", ("[O]", "C"): "[O]C", ("OO", ""): "OO", ("OO", "C"): "OOC"}
BACK = {v: {"head": k[0], "rest": k[1]} for k, v in TEXT.items()}


def render(toks):
    return ".".join(TEXT[(t["head"], t["rest"])] for t in toks)


def read(side):
    out = []
    for tok in side.split("."):
        out.append(BACK.get(tok, {"head": "", "rest": "GLUED"}))
    return out


def run(products):
    entry = {"reactants": "CCCl", "products": products, "id": "0"}
    res = RuleConstraint.reduction_oxidation_rules_modify([copy.deepcopy(entry)])
    return res[0]["products"] if res else products


def main():
    states_file, out_file = sys.argv[1], sys.argv[2]
    with open(states_file) as f:
        states = json.load(f)
    ev = []
    for st in states:
        inp, added = st["inp"], st["added"]
        out = read(run(render(inp + added)))
        rev = read(run(render(list(reversed(inp)) + added)))
        key = lambda ts: sorted((t["head"], t["rest"]) for t in ts)
        ev.append({"id": len(ev) + 1, "inp": inp, "added": added, "out": out, "same_as_reversed": key(out) == key(rev),
                   "products_in": render(inp + added)})
    common.write_ndjson(out_file, ev)
    print(json.dumps({"states": len(ev)}))


if __name__ == "__main__":
    main()
