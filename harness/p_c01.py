"""C01 - decided by API clauses over the shared pipeline recording (see DESIGN.md section 5/C01)."""
from harness import api_props, pipeline_design

CLAUSES = ['SolvedBalanced']


def run(tier):
    return api_props.run_api_property("C01", tier, set(CLAUSES), design=pipeline_design.design_c01)


def replay(path):
    return api_props.replay_api("C01", path, set(CLAUSES))
