"""C05 - one result row per input row, in input order, for every input form."""
import json
import os
import random

from harness import common
from harness.common import Report

OK_POOL = ["CCO>>CCO", "CC(=O)O.CO>>CC(=O)OC.O", "CCBr.[OH-]>>CCO", "CC>>CCC", "CC(=O)Cl.N>>CC(N)=O",
           "C=C.[H][H]>>CC", "CCN.CC(=O)O>>CCNC(C)=O", "CC(=O)OC>>CC(=O)O", "CCCl.O>>CCO", "c1ccccc1.BrBr>>c1ccccc1Br",
           "CC(C)O>>CC(C)=O", "[CH3:1][OH:2].[ClH:3]>>[CH3:1][Cl:3]"]
UNPARSABLE = ["C(C>>CC", "CCO>>C1CC", "c1ccc>>CC", "CC)O>>CCO", "CCO>>CC(C)(C)(C)(C)C", "Xx>>CC"]
NOSEP = ["CCO", "", "CC>O>CC", "CC>>O>>CC", "CC>CC", "CC.O"]


def realise(kinds, salt, rng):
    """Concrete, pairwise distinct strings for an abstract layout."""
    out = []
    used = set()
    for j, k in enumerate(kinds):
        pool = OK_POOL if k == "ok" else UNPARSABLE if k == "unparsable" else NOSEP
        for t in range(len(pool)):
            s = pool[(salt + j * 5 + t) % len(pool)]
            if s not in used:
                break
        used.add(s)
        out.append(s)
    return out


def design(rep, tier):
    r = common.design_check("Batching", "MC_Batching.cfg", workers=8)
    rep.add_model(r, role="design: DataLoader protocol, per-batch pipeline, concatenation; all layouts in the bound")
    for cfg, why in (("Neg_Batching_drop.cfg", "filtering malformed rows shifts later rows"),
                     ("Neg_Batching_raise.cfg", "a row without separator empties the batch")):
        rep.add_model(common.neg_check("Batching", cfg), role="negative: " + why)


def run(tier):
    rep = Report("C05", tier)
    design(rep, tier)
    rng = random.Random(common.seed() * 17 + 5)
    th = common.tree_hash()
    wd = common.workdir("rec", th, "c05_%s_%d" % (tier, common.seed()), fresh=True)
    # layouts = initial states of the bounded model (input kind sequence x batch size)
    cfg = "MC_Batching_replay_quick.cfg" if tier == "quick" else "MC_Batching_replay_thorough.cfg"
    res, states = common.tlc_dump_states("Batching", cfg, workers=4)
    rep.add_model(res, role="enumeration of layouts for replay")
    layouts = sorted({(tuple(s["inputs"]), s["bs"]) for s in states if s["pc"] == "next" and s["pos"] == 0
                      and not s["stopped"] and s["results"] == [] and s["lost"] == 0})
    forms = ["list", "dict", "csv", "json"]
    runs = []
    for n, (kinds, bs) in enumerate(layouts):
        if len(kinds) == 0:
            continue
        inputs = realise(kinds, n, rng)
        form = forms[n % 4]
        data = inputs if form == "list" else [{"reaction": s, "rid": "r%d_%d" % (n, j),
                                               "note": ['plain', 'a,b', 'say "hi"', 'x;y', 'caf\u00e9', ' lead', 'tab\tx'][(n + j) % 7]}
                                              for j, s in enumerate(inputs)]
        runs.append({"name": "L%d" % n, "inputs": data, "form": form, "batch_size": bs if bs else None,
                     "n_jobs": 1, "threshold": 0, "kinds": list(kinds), "also_plain": n % 3 != 2, "ctor_bs": n % 2 == 0})
    # batches with more than ten rows (two-digit positions / ids), one or two malformed rows among them
    cheap = ["%sO>>%sO" % ("C" * k, "C" * k) for k in range(1, 8)] + ["%sBr.[OH-]>>%sO" % ("C" * k, "C" * k) for k in range(2, 9)]
    for n_, (bad_pos, bs_) in enumerate([((3,), None), ((0, 12), None), ((13,), 12), ((5, 6), 13), ((11,), 11), ((), 12)]):
        rows_ = list(cheap)
        kinds_ = ["ok"] * len(rows_)
        for j, pos in enumerate(bad_pos):
            rows_.insert(pos, ["CC)O>>CCO", "CC.O"][j % 2])
            kinds_.insert(pos, ["unparsable", "nosep"][j % 2])
        form_ = ["list", "dict", "csv", "json"][n_ % 4]
        data_ = rows_ if form_ == "list" else [{"reaction": s_, "rid": "big%d_%d" % (n_, j), "note": "n%d" % j}
                                               for j, s_ in enumerate(rows_)]
        runs.append({"name": "big%d" % n_, "inputs": data_, "form": form_, "batch_size": bs_, "n_jobs": 2, "threshold": 0,
                     "kinds": kinds_, "also_plain": n_ % 2 == 0})
    # missing values in dict / json sources
    runs.append({"name": "missing_dict", "inputs": [{"reaction": "CCO>>CCO"}, {"reaction": None}, {"reaction": "CC>>CCC"}],
                 "form": "dict", "batch_size": 2, "n_jobs": 1, "threshold": 0, "kinds": ["ok", "nosep", "ok"]})
    # repeated identical rows (valid) must stay separate rows
    runs.append({"name": "duplicates", "inputs": ["CCO>>CCO", "CC>>CCC", "CCO>>CCO", "CCBr.[OH-]>>CCO", "CC>>CCC",
                                                   "CCO>>CCO"], "form": "list", "batch_size": None, "n_jobs": 2,
                 "threshold": 0, "kinds": ["ok"] * 6})
    runs.append({"name": "duplicates_b4", "inputs": ["CCO>>CCO", "CC>>CCC", "CCO>>CCO", "CCBr.[OH-]>>CCO", "CC>>CCC",
                                                      "CCO>>CCO"], "form": "dict", "batch_size": 4, "n_jobs": 1,
                 "threshold": 0, "kinds": ["ok"] * 6})
    # the command line with pass-through columns (first row valid: the CLI validates it up front)
    ncli = 4 if tier == "quick" else 30
    for c in range(ncli):
        kinds = ["ok"] + [rng.choice(["ok", "ok", "unparsable", "nosep"]) for _ in range(rng.randint(2, 6))]
        if c == 0:
            kinds = ["ok", "ok", "ok", "ok", "ok"]
        if c == 1:
            kinds = ["ok", "unparsable", "ok", "ok"]
        inputs = realise(kinds, 1000 + c, rng)
        if c == 0:
            inputs[3] = inputs[0]  # a repeated reaction
        recs = [{"rid": "id%d_%d" % (c, j), "reaction": s, "note": "n%d" % ((j * 7 + c) % 10)}
                for j, s in enumerate(inputs)]
        runs.append({"name": "cli%d" % c, "inputs": recs, "form": "cli", "batch_size": [None, 2, 3][c % 3],
                     "n_jobs": 1, "threshold": 0, "kinds": kinds})
    # split the plan over several driver processes
    nproc = 8
    jobs = []
    logs = []
    for k in range(nproc):
        part = runs[k::nproc]
        if not part:
            continue
        pf = os.path.join(wd, "plan_%d.json" % k)
        with open(pf, "w") as f:
            json.dump({"runs": part}, f)
        lg = os.path.join(wd, "part_%d.ndjson" % k)
        logs.append(lg)
        jobs.append(("drv_pipeline", [pf, lg], None))
    common.run_drivers_parallel(jobs, timeout=3 * 3600)
    events = []
    nid = 0
    for lg in logs:
        for e in common.read_ndjson(lg):
            if e["ev"] in ("run", "cli"):
                nid += 1
                e["id"] = nid
                events.append(e)
    log = os.path.join(wd, "c05.ndjson")
    common.write_ndjson(log, events)
    n, bad, st = common.validate_trace("Batching_Trace", log)
    rep.add_trace_stats(n, st)
    evd = {e["id"]: e for e in events}
    for eid, pos, clause in bad:
        e = evd[eid]
        args = e["args"] if e["ev"] == "run" else [x["arg"] for x in e["inputs"]]
        kinds = e.get("kinds") or []
        mal = sorted({k for k in kinds if k != "ok"})
        sig = "%s form=%s bs=%s kinds=%s inputs=%s" % (e["name"], e["cfg"]["form"], e["cfg"]["batch_size"],
                                                       ",".join(kinds), json.dumps(args))
        grp = "%s malformed=%s" % (clause, ",".join(mal) if mal else "none")
        rep.fail(clause, sig, group=grp,
                 detail={"form": e["cfg"]["form"], "batch_size": e["cfg"]["batch_size"], "kinds": kinds, "inputs": args,
                         "returned_rows": [{"echo": r["echo"], "solved": r["solved"]} for r in e["rows"]],
                         "raised": e["raised"], "stats": e["stats"], "pos": pos},
                 replay={"run": {"name": "replay", "inputs": (e["inputs"] if e["ev"] == "cli" else args),
                                 "form": e["cfg"]["form"], "batch_size": None if e["cfg"]["batch_size"] in (None, "NONE")
                                 else e["cfg"]["batch_size"], "n_jobs": 1, "threshold": 0, "kinds": kinds}})
    if tier == "thorough":
        def corrupt(e):
            if e["ev"] == "run" and e["nrows"] >= 2:
                e["rows"] = e["rows"][1:]
                e["nrows"] -= 1
                return e
            return None
        common.binding_selftest(rep, "Batching_Trace", log, corrupt)
    rep.extra.update({"layouts_replayed": len(layouts), "calls": len(events),
                      "cli_runs": sum(1 for e in events if e["ev"] == "cli"),
                      "forms": {f: sum(1 for e in events if e["cfg"]["form"] == f) for f in forms + ["cli"]},
                      "calls_with_malformed_rows": sum(1 for e in events if any(k != "ok" for k in e.get("kinds", [])))})
    for e in events[:2] + events[-1:]:
        rep.sample({"name": e["name"], "cfg": e["cfg"], "kinds": e.get("kinds"), "nrows": e["nrows"],
                    "inputs": (e.get("args") or [x["arg"] for x in e.get("inputs", [])])})
    rep.assumptions += ["a valid row 'describes' its input when input_reaction has the same molecules per side (RDKit "
                        "identity); a malformed row when input_reaction or reaction echoes the given string",
                        "CLI inputs start with a valid row (the CLI validates the first row up front)"]
    return rep.finish()


def replay(path):
    with open(path) as f:
        data = json.load(f)
    wd = common.workdir("replay_tmp", fresh=True)
    pf = os.path.join(wd, "plan.json")
    with open(pf, "w") as f:
        json.dump({"runs": [data["replay"]["run"]]}, f)
    log = os.path.join(wd, "r.ndjson")
    common.run_driver("drv_pipeline", [pf, log])
    events = [e for e in common.read_ndjson(log) if e["ev"] in ("run", "cli")]
    for k, e in enumerate(events, 1):
        e["id"] = k
    tl = os.path.join(wd, "t.ndjson")
    common.write_ndjson(tl, events)
    n, bad, st = common.validate_trace("Batching_Trace", tl)
    print("rows returned:", [r["echo"] for r in events[0]["rows"]], "raised:", events[0]["raised"])
    print("failing clauses:", bad)
    return 1 if bad else 0
