"""C08 - rule-based completions add up exactly to the imbalance."""
import json
import os

from harness import common
from harness.common import Report


def run(tier):
    rep = Report("C08", tier)
    cfg = "MC_RuleMatcher.cfg" if tier == "quick" else "MC_RuleMatcher_big.cfg"
    rep.add_model(common.design_check("MC_RuleMatcher", cfg, workers=8, timeout=3000),
                  role="design: every imbalance vector in the bound over an abstract database")
    rep.exhaustive = True
    rep.add_model(common.neg_check("MC_RuleMatcher", "Neg_RuleMatcher.cfg"),
                  role="negative: exit test that forgets the charge")
    th = common.tree_hash()
    wd = common.workdir("rec", th, "c08_%s_%d" % (tier, common.seed()), fresh=True)
    log = os.path.join(wd, "c08.ndjson")
    info = json.loads(common.run_driver("drv_c08", [log, tier, common.seed()]).strip().splitlines()[-1])
    n, bad, st = common.validate_trace("RuleMatcher_Trace", log, xmx="12g", timeout=3 * 3600)
    rep.add_trace_stats(n, st)
    events = {e["id"]: e for e in common.read_ndjson(log)}
    drift = 0
    for eid, clause in bad:
        e = events[eid]
        if clause.startswith("DRIFT_"):
            drift += 1
            if drift <= 5:
                rep.extra.setdefault("model_drift", []).append({"data": e.get("data"), "solutions": e.get("solutions")})
            continue
        if e["ev"] == "db":
            sig = "database %s record %s" % (e["name"], clause.split(":", 1)[-1])
            rep.fail(clause.split(":")[0], sig, detail={"db": e["name"]}, group=clause.split(":")[0] + "/" + e["name"],
                     replay={"event": {"ev": "db", "name": e["name"]}})
        elif e["ev"] == "match":
            sig = "match db=%s data=%s" % (e["db"], json.dumps(e["data"], sort_keys=True))
            rep.fail(clause, sig, detail={"data": e["data"], "solutions": e["solutions"][:4]}, group=clause,
                     replay={"data": e["data"], "db": e["db"]})
        elif e["ev"] == "impute":
            sig = "%s_impute data=%s side=%s" % (e.get("via", "single"), json.dumps(e["data"], sort_keys=True), e["unbalance"])
            rep.fail(clause, sig, detail=e, group=clause, replay={"data": e["data"], "db": e["db"]})
        elif e["ev"] == "rbm":
            sig = "RuleBasedMethod.run batch row input=%s output=%s" % (e["input"], e["output"])
            rep.fail(clause, sig, detail=e, group=clause, replay={"input": e["input"]})
        elif e["ev"] == "parallel":
            sig = "parallel_impute data=%s parallel=%s single=%s" % (json.dumps(e["data"], sort_keys=True), e["parallel"], e["single"])
            rep.fail(clause, sig, detail=e, group=clause, replay={"data": e["data"]})
        else:
            sig = "constrain products=%s" % e["products_in"]
            rep.fail(clause, sig, detail=e, group=clause, replay={"products": e["products_in"]})
    rep.extra.update(info)
    rep.extra["model_drift_count"] = drift
    ms = [e for e in events.values() if e["ev"] == "match" and e["solutions"]]
    rep.sample({"data": ms[0]["data"], "solutions": ms[0]["solutions"][:2]})
    rep.sample({"data": ms[-1]["data"], "solutions": ms[-1]["solutions"][:2]})
    rep.assumptions += ["true compositions and ionic content of database SMILES come from the RDKit oracle",
                        "the expected solution set is computed by TLC from RuleMatcher.tla over the recorded "
                        "compositions of the shipped database; exactness is judged with the oracle compositions"]
    return rep.finish()


def replay(path):
    with open(path) as f:
        data = json.load(f)
    print("re-run ./check C08: the failing vector is", data["replay"])
    return 1
