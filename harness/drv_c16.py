"""C16 driver: (a) TLC-built small molecules through the real pattern_match,
(b) corpus molecules through the real is_functional_group under renumberings,
with an independent exact subgraph matcher as reference."""
import json
import random
import sys

from rdkit import Chem

from harness import oracle, common, corpus
import synrbl.SynUtils.functional_group_utils as fgu

BT = {Chem.BondType.SINGLE: 1, Chem.BondType.DOUBLE: 2, Chem.BondType.TRIPLE: 3, Chem.BondType.AROMATIC: 4}
RBT = {1: Chem.BondType.SINGLE, 2: Chem.BondType.DOUBLE, 3: Chem.BondType.TRIPLE}
SMALL_PATTERNS = ["CO", "C=O", "CN", "C#N", "NO", "N=O", "COC", "CSC", "OCO", "C=CO", "CC=O", "NC=O", "O=CS", "OC=S", "O=NO",
                  "OCN", "OC=O", "CC(=O)O", "CC(C)=O", "O=C(O)O", "NC(=O)O", "OCOC", "COCO", "COCOC", "COC(C)=O", "C=S", "CS",
                  "O=C(C)OC", "SC=O", "C(N)=O", "CC(C)=O"]


def graph_of(mol):
    n = mol.GetNumAtoms()
    bt = [[0] * n for _ in range(n)]
    for b in mol.GetBonds():
        t = BT.get(b.GetBondType(), 9)
        i, j = b.GetBeginAtomIdx(), b.GetEndAtomIdx()
        bt[i][j] = bt[j][i] = t
    return {"n": n, "lab": [a.GetSymbol() for a in mol.GetAtoms()], "bt": bt}


def mol_of(g):
    rw = Chem.RWMol()
    for s in g["lab"]:
        rw.AddAtom(Chem.Atom(s))
    for i in range(g["n"]):
        for j in range(i + 1, g["n"]):
            if g["bt"][i][j]:
                rw.AddBond(i, j, RBT[g["bt"][i][j]])
    m = rw.GetMol()
    try:
        Chem.SanitizeMol(m)
    except Exception:
        return None
    if any(a.GetIsAromatic() for a in m.GetAtoms()):
        return None
    return m


def occurs(g, anchor, p, must=None):
    """exact reference: injective, element- and bond-type-preserving embedding of p into g
    whose image contains `anchor` (at pattern atom `must` if given)"""
    n, pn = g["n"], p["n"]
    order = list(range(pn))
    img = [None] * pn
    used = set()

    def ok(k, v):
        if g["lab"][v] != p["lab"][k]:
            return False
        for k2 in range(pn):
            if img[k2] is not None and p["bt"][k][k2] and g["bt"][v][img[k2]] != p["bt"][k][k2]:
                return False
        return True

    def rec(pos):
        if pos == pn:
            return anchor in img if must is None else img[must] == anchor
        k = order[pos]
        # candidates: neighbours of already mapped pattern-neighbours, else all
        cands = range(n)
        for k2 in range(pn):
            if img[k2] is not None and p["bt"][k][k2]:
                cands = [v for v in range(n) if g["bt"][img[k2]][v]]
                break
        for v in cands:
            if v in used or not ok(k, v):
                continue
            img[k] = v
            used.add(v)
            if rec(pos + 1):
                img[k] = None
                used.discard(v)
                return True
            img[k] = None
            used.discard(v)
        return False

    # order pattern atoms so that each (after the first) is adjacent to an earlier one
    seen = [0]
    while len(seen) < pn:
        for k in range(pn):
            if k not in seen and any(p["bt"][k][s] for s in seen):
                seen.append(k)
                break
        else:
            seen.append(next(k for k in range(pn) if k not in seen))
    order[:] = seen
    return rec(0)


_FGP = None


def wrapper_answer(mol, idx, sym, group):
    global _FGP
    from synrbl.SynMCSImputer.structure import CompoundSet
    from synrbl.SynMCSImputer.rules import FunctionalGroupProperty
    if _FGP is None:
        _FGP = FunctionalGroupProperty()
    c = CompoundSet().add_compound("C", src_mol=Chem.Mol(mol))
    b = c.add_boundary(0, symbol="C", neighbor_index=idx, neighbor_symbol=sym)
    try:
        return bool(_FGP.check(b, group))
    except Exception as ex:
        return "RAISED " + type(ex).__name__


def has_ring(mol):
    return mol.GetRingInfo().NumRings() > 0


def main():
    states_file, out_file, tier, seed = sys.argv[1], sys.argv[2], sys.argv[3], int(sys.argv[4])
    rng = random.Random(seed)
    ev = []

    def add(e):
        e["id"] = len(ev) + 1
        ev.append(e)

    pats = []
    for s in SMALL_PATTERNS:
        pm = Chem.MolFromSmiles(s)
        pats.append((s, pm, graph_of(pm)))
    with open(states_file) as f:
        states = json.load(f)
    rng.shuffle(states)
    nmol = 0
    limit = 500 if tier == "quick" else 6000
    for g in states:
        g = {"n": g["n"], "lab": g["lab"], "bt": g["bt"]}
        m = mol_of(g)
        if m is None:
            continue
        nmol += 1
        if nmol > limit:
            break
        elems = set(g["lab"])
        for s, pm, pg in pats:
            if not set(pg["lab"]) <= elems or pg["n"] > g["n"] + 1:
                continue
            real, ref = [], []
            for a in range(g["n"]):
                real.append(bool(fgu.pattern_match(m, a, pm)[0]))
                ref.append(occurs(g, a, pg))
            add({"ev": "pm", "smiles": Chem.MolToSmiles(m), "pattern": s, "mol": g, "pat": pg, "real": real, "ref": ref,
                 "ring": has_ring(m)})
    # (b) functional groups on corpus molecules under renumbering
    groups = list(fgu.functional_group_config.keys())
    mols = ["Oc1ccc2ccccc2c1", "Nc1cccc2ccccc12", "Nc1ccc2ncccc2c1", "OC1CCCCC1", "CC(=O)OC(C)=O", "COC(C)OC", "O=C(O)c1ccccc1O",
            "CC(=O)Nc1ccccc1", "CC(=O)SC", "OCC(O)CO", "CC(O)OC", "C1OCOC1", "O=C1OCCO1", "NC(=O)OC", "CON", "C[N+](=O)[O-]",
            "CSC(C)=O", "OC(=S)C", "N#CCO", "c1cc[nH]c1O", "COc1ccccc1", "O=CC=O", "OC=O", "NC(N)=O", "CC(=O)C(C)=O", "C1COC(=O)O1",
            "OCOCO", "COCOC", "CC(C)(O)OC", "O=C1CCC(=O)O1",
            # aromatic rings that are not six-membered next to six-ring patterns (anilin = Nc1ccccc1)
            "Cc1cccc(N)c(=O)c1", "Nc1ccccc(=O)c1", "Nc1ccc2cccccc12", "Nc1cccc2cccc12", "Nc1ccco1", "Nc1cccs1", "Nc1ccc[nH]1",
            # dative bonds: neither single nor double for a pattern
            "CN(C)(C)->O", "CN1(->O)CCOCC1", "O<-n1ccccc1", "CN(=O)->O", "O=N(->O)c1ccccc1", "CS(C)->O", "[NH3]->B(F)(F)F"]
    mols += corpus.molecules(limit=150 if tier == "quick" else 3000, rng=rng)
    nfg = 0
    for smi in mols:
        m = oracle.parse(smi)
        if m is None or m.GetNumAtoms() > 50 or m.GetNumAtoms() < 2:
            continue
        for a in m.GetAtoms():
            a.SetAtomMapNum(0)
        g = graph_of(m)
        perms = []
        for _ in range(3 if tier == "quick" else 6):
            order = list(range(m.GetNumAtoms()))
            rng.shuffle(order)           # new atom k is old atom order[k]
            perms.append((order, Chem.RenumberAtoms(m, order)))
        ring_atoms = {i for r in m.GetRingInfo().AtomRings() for i in r}
        for atom in m.GetAtoms():
            if atom.GetSymbol() in ("C", "H"):
                continue
            idx = atom.GetIdx()
            for name in groups:
                cfg = fgu.functional_group_config[name]
                real = bool(fgu.is_functional_group(m, name, idx))
                renum = [bool(fgu.is_functional_group(pm_, name, order.index(idx))) for order, pm_ in perms]
                # the entry point the merge / expand rule conditions use (rules.FunctionalGroupProperty.check on a
                # boundary whose neighbour is this atom of the source molecule), same molecule in several atom orders
                wrap = [wrapper_answer(m, idx, atom.GetSymbol(), name)] + \
                       [wrapper_answer(pm_, order.index(idx), atom.GetSymbol(), name) for order, pm_ in perms]
                refP = [occurs(g, idx, graph_of(pm_)) for pm_ in cfg.pattern]
                refG = [occurs(g, idx, graph_of(gm)) for gm in cfg.groups]
                refA = [occurs(g, idx, graph_of(am)) for am in cfg.anti_pattern]
                if not real and not any(renum) and not any(refP) and not any(w is not False for w in wrap):
                    continue   # trivially consistent negatives are not logged (keeps the log small)
                nfg += 1
                e = {"ev": "fg", "smiles": Chem.MolToSmiles(m), "group": name, "atom": idx, "sym": atom.GetSymbol(),
                     "real": real, "renum": renum, "wrap": wrap, "refP": refP, "refG": refG, "refA": refA, "graphs": False,
                     "in_ring": idx in ring_atoms or any(nb.GetIdx() in ring_atoms for nb in atom.GetNeighbors())}
                ref = any(a_ and b_ for a_, b_ in zip(refP, refG)) and not any(refA)
                if real != ref and ring_atoms and m.GetNumAtoms() <= 40:
                    # the answer disagrees with the reference in a molecule with rings: log the graphs so that TLC can
                    # evaluate the transcription of the algorithm (IsGroup) and tell the known ring-overlap behaviour
                    # (real = transcription) from anything else
                    e.update({"graphs": True, "mol": g, "pats": [graph_of(x) for x in cfg.pattern],
                              "grps": [graph_of(x) for x in cfg.groups], "antis": [graph_of(x) for x in cfg.anti_pattern]})
                add(e)
    common.write_ndjson(out_file, ev)
    print(json.dumps({"events": len(ev), "small_molecules": min(nmol, limit), "fg_events": nfg,
                      "groups": len(groups), "patterns_small": len(pats)}))


if __name__ == "__main__":
    main()
