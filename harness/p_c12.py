"""C12 - result caching is transparent across runs, configurations and crashes."""
import json
import os
import random

from harness import common
from harness.common import Report

BMAP = {"b1": "b1", "b2": "b2"}
CMAP = {"t0": "t0", "t5": "t5"}


def _state_of(s):
    """abstract directory state of a dumped Cache.tla state: {"b/c": {disk, temp}}"""
    out = {}

    def walk(fn, which):
        # TLC prints a function with tuple domain as (<<"b1","t0">> :> [...] @@ ...); parse_tla cannot read
        # that, so the dump is post-processed textually in _parse_fn
        for (b, c), rec in fn:
            out.setdefault("%s/%s" % (b, c), {})[which] = rec["kind"]
    walk(s["disk"], "disk")
    walk(s["temp"], "temp")
    return out


def run(tier):
    rep = Report("C12", tier)
    r = common.design_check("Cache", "MC_Cache.cfg", workers=12, timeout=3000)
    rep.add_model(r, role="design: all histories of <= 3 runs, crash at every write step")
    rep.add_model(common.neg_check("Cache", "Neg_Cache_key.cfg"), role="negative: key without configuration")
    rep.add_model(common.neg_check("Cache", "Neg_Cache_crash.cfg"), role="negative: in-place write, intolerant load")
    rep.add_model(common.neg_check("Cache", "Neg_Cache_twin.cfg"),
                  role="negative: key computed from a projection of the rows (different batches share an entry)")
    rng = random.Random(common.seed() * 13 + 1)
    th = common.tree_hash()
    wd = common.workdir("rec", th, "c12_%s_%d" % (tier, common.seed()), fresh=True)
    # reachable idle directory states and crash-free histories of the bounded model
    res, states = dump_cache_states()
    rep.add_model(res, role="enumeration of directory states and histories for replay")
    idle = [s for s in states if s["pc"] == "idle"]
    dstates = {}
    hists = {}
    for s in idle:
        key = json.dumps(s["abs"], sort_keys=True)
        dstates[key] = s["abs"]
        h = [x for x in s["hist"]]
        if h and all(x["outcome"] == "completed" for x in h):
            hists[json.dumps(h, sort_keys=True)] = [{"cfg": x["cfg"], "batches": x["batches"]} for x in h]
    dlist = [dstates[k] for k in sorted(dstates)]
    hlist = [hists[k] for k in sorted(hists)]
    nstates, nh = (14, 10) if tier == "quick" else (len(dlist), 150)
    # always include the states with a partial file, sample the rest
    partial = [d for d in dlist if any("partial" in v.values() for v in d.values())]
    others = [d for d in dlist if d not in partial]
    rng.shuffle(partial)
    rng.shuffle(others)
    chosen = (partial[: max(6, nstates // 2)] + others)[:nstates]
    runs_pool = [{"cfg": c, "batches": bs} for c in ("t0", "t5") for bs in (["b1"], ["b2"], ["b1", "b2"], ["b2", "b1"], ["b1", "b1"])]
    plan_states = []
    for d in chosen:
        plan_states.append({"state": d, "runs": rng.sample(runs_pool, 3 if tier == "quick" else 6)})
    two_cfg = [h for h in hlist if len({x["cfg"] for x in h}) > 1]
    rng.shuffle(two_cfg)
    rng.shuffle(hlist)
    plan_h = (two_cfg[: nh // 2] + hlist)[:nh]
    # histories beyond the model's alphabet: third batch, third threshold, other column name, permuted rows
    plan_h += [
        [{"cfg": "t0", "batches": ["b1", "b2"]}, {"cfg": "t0", "batches": ["b2", "b1"]}, {"cfg": "t5", "batches": ["b1", "b2"]}],
        [{"cfg": "t0", "batches": ["b3"]}, {"cfg": "t9", "batches": ["b3"]}, {"cfg": "t0", "batches": ["b3", "b3"]}],
        [{"cfg": "t0", "batches": ["b1"]}, {"cfg": "c0", "batches": ["b1"]}, {"cfg": "t0", "batches": ["b1"]}],
        [{"cfg": "t5", "batches": ["b1", "b3"]}, {"cfg": "t9", "batches": ["b3", "b1"]}, {"cfg": "t5", "batches": ["b3", "b1"]}],
        # rows with further columns: same reactions, other pass-through values -> other entries
        [{"cfg": "t0", "batches": ["b1x"]}, {"cfg": "t0", "batches": ["b1y"]}, {"cfg": "t0", "batches": ["b1"]},
         {"cfg": "t0", "batches": ["b1x"]}, {"cfg": "t5", "batches": ["b1y"]}],
        [{"cfg": "t0", "batches": ["b1"]}, {"cfg": "t0", "batches": ["b1x"]}, {"cfg": "t0", "batches": ["b3x", "b1y"]},
         {"cfg": "t0", "batches": ["b3", "b1x"]}],
        # batch_size None: the whole input is one batch, so one entry
        [{"cfg": "n0", "batches": ["b1", "b2"]}, {"cfg": "t0", "batches": ["b1", "b2"]}, {"cfg": "n0", "batches": ["b1", "b2"]},
         {"cfg": "n0", "batches": ["b2", "b1"]}, {"cfg": "n5", "batches": ["b1", "b2"]}],
        [{"cfg": "n0", "batches": ["b1x", "b2"]}, {"cfg": "n0", "batches": ["b1y", "b2"]}, {"cfg": "n0", "batches": ["b1", "b2"]},
         {"cfg": "n0", "batches": ["b1y", "b2"]}],
        [{"cfg": "t0", "batches": ["b1"]}, {"cfg": "n0", "batches": ["b1"]}, {"cfg": "n5", "batches": ["b1"]},
         {"cfg": "t5", "batches": ["b1"]}],
        # malformed rows: the same valid rows around different / no malformed rows, across runs and within one call
        [{"cfg": "n0", "batches": ["bm1"]}, {"cfg": "n0", "batches": ["bm2"]}, {"cfg": "n0", "batches": ["b1"]},
         {"cfg": "n0", "batches": ["bm3"]}, {"cfg": "n0", "batches": ["bm1"]}],
        [{"cfg": "n0", "batches": ["b1"]}, {"cfg": "n0", "batches": ["bm2"]}, {"cfg": "t0", "batches": ["bm4"]},
         {"cfg": "t0", "batches": ["bm4", "bm1"]}],
        # callers that ask / do not ask for statistics, in both orders
        [{"cfg": "t0", "batches": ["b1", "b2"], "nostats": True}, {"cfg": "t0", "batches": ["b1", "b2"]},
         {"cfg": "t0", "batches": ["b2"], "nostats": True}, {"cfg": "t5", "batches": ["b1"]},
         {"cfg": "t5", "batches": ["b1"], "nostats": True}, {"cfg": "t5", "batches": ["b1"]}],
        # thresholds less than a thousandth apart, around a reported confidence
        [{"cfg": "ta", "batches": ["b4"]}, {"cfg": "tb", "batches": ["b4"]}, {"cfg": "tc", "batches": ["b4"]},
         {"cfg": "ta", "batches": ["b4"]}],
        # near-twins: mirror images, other spellings of the same reactions
        [{"cfg": "t0", "batches": ["bs1"]}, {"cfg": "t0", "batches": ["bs2"]}, {"cfg": "t0", "batches": ["bs1", "bs2"]}],
        [{"cfg": "t0", "batches": ["bo1"]}, {"cfg": "t0", "batches": ["bo2"]}, {"cfg": "t0", "batches": ["bo3"]},
         {"cfg": "t0", "batches": ["bo1"]}],
    ]
    plan = {"keys": [["b1", "t0"], ["b1", "t5"], ["b2", "t0"], ["b2", "t5"], ["b3", "t0"], ["b3", "t9"], ["b1", "c0"],
                     ["b3", "t5"], ["b1", "t9"], ["b1x", "t0"], ["b1y", "t0"], ["b1y", "t5"], ["b3x", "t0"],
                     ["b1", "n0"], ["b2", "n0"], ["b1", "n5"], ["b2", "n5"], ["b1x", "n0"], ["b1y", "n0"],
                     ["bm1", "n0"], ["bm2", "n0"], ["bm3", "n0"], ["bs1", "t0"], ["bs2", "t0"], ["bo1", "t0"], ["bo2", "t0"],
                     ["bo3", "t0"], ["b4", "ta"], ["b4", "tb"], ["b4", "tc"]],
            "states": plan_states, "histories": plan_h, "prefix_step": 211 if tier == "quick" else 7,
            "cli_histories": [
                [{"cfg": "t0", "batches": ["b1", "b2"]}, {"cfg": "t5", "batches": ["b1", "b2"]}, {"cfg": "t0", "batches": ["b2", "b1"]},
                 {"cfg": "t0", "batches": ["b1", "b2"]}],
                [{"cfg": "n0", "batches": ["bm1"]}, {"cfg": "n0", "batches": ["bm2"]}, {"cfg": "n0", "batches": ["b1"]}],
                [{"cfg": "t9", "batches": ["bs1"]}, {"cfg": "t0", "batches": ["bs2"]}, {"cfg": "t0", "batches": ["bs1"]}]]}
    pf = os.path.join(wd, "plan.json")
    with open(pf, "w") as f:
        json.dump(plan, f)
    log = os.path.join(wd, "c12.ndjson")
    info = json.loads(common.run_driver("drv_c12", [pf, log], timeout=4 * 3600).strip().splitlines()[-1])
    n, bad, st = common.validate_trace("Cache_Trace", log)
    rep.add_trace_stats(n, st)
    events = {e["id"]: e for e in common.read_ndjson(log)}
    drift = []
    for eid, clause in bad:
        e = events[eid]
        if clause.startswith("DRIFT_"):
            drift.append({"clause": clause, "cfg": e["cfg"], "batches": e["batches"], "hits": e["hits"],
                          "history": e.get("history")})
            continue
        sig = "%s installed=%s run=%s/%s" % (e["kind"], json.dumps(e["installed"], sort_keys=True), e["cfg"],
                                            ",".join(e["batches"]))
        if e["kind"] in ("history", "cli"):
            sig = "%shistory=%s" % ("cli " if e["kind"] == "cli" else "", json.dumps(e["history"]))
        grp = "%s/%s/%s" % (clause, e["kind"], "raised" if e["raised"] else "returned")
        rep.fail(clause, sig, group=grp,
                 detail={"installed": e["installed"], "cfg": e["cfg"], "batches": e["batches"], "raised": e["raised"],
                         "returned": e["returned"], "expected": e["expected"], "stats": e["stats"],
                         "exp_stats": e["exp_stats"], "history": e.get("history")},
                 replay={"plan": {"keys": plan["keys"], "states": ([{"state": {}, "runs": []}]), "histories":
                                  [e["history"]] if e.get("history") else [], "prefix_step": 10 ** 9}})
    if tier == "thorough":
        def corrupt(e):
            if e["returned"]:
                e["returned"][0] = e["returned"][0].replace("true", "false", 1) if "true" in e["returned"][0] else e["returned"][0] + " "
                e["kind"] = "state"
                return e
            return None
        common.binding_selftest(rep, "Cache_Trace", log, corrupt, expect_clause="RowsTransparent")
    kinds = {}
    for e in events.values():
        kinds[e["kind"]] = kinds.get(e["kind"], 0) + 1
    rep.extra.update({"runs_by_kind": kinds, "directory_states_in_model": len(dlist), "states_replayed": len(chosen),
                      "histories_in_model": len(hlist), "histories_replayed": len(plan_h), "model_drift": drift[:10],
                      "model_drift_count": len(drift), "observed_write": info})
    ev = list(events.values())
    rep.sample({k: ev[0][k] for k in ("kind", "installed", "cfg", "batches", "hits", "raised")})
    rep.sample({k: ev[-1][k] for k in ("kind", "installed", "cfg", "batches", "hits", "raised")})
    rep.assumptions += ["crash states are prefixes of the file the implementation was observed writing (audit hook), "
                        "installed by the harness; processes are not actually killed",
                        "rows compared as tuples (input_reaction, reaction, solved, method, confidence, issue, rules)"]
    return rep.finish()


def dump_cache_states():
    """TLC prints functions over tuple domains with :> / @@; convert the dump textually."""
    import re
    d = common.workdir("dump")
    path = os.path.join(d, "cache_%d" % os.getpid())
    res = common.run_tlc("Cache", "MC_Cache_replay.cfg", workers=8, extra=["-dump", path])
    if not res["ok"]:
        raise common.MachineryError("Cache replay model failed")
    with open(path + ".dump") as f:
        txt = f.read()
    os.remove(path + ".dump")
    states = []
    for block in re.split(r"^State \d+:\s*$", txt, flags=re.M):
        block = block.strip()
        if not block:
            continue
        st = {}
        for conj in re.split(r"^/\\ ", block, flags=re.M):
            conj = conj.strip()
            if not conj:
                continue
            name, val = conj.split(" = ", 1)
            st[name.strip()] = val.strip()
        ab = {}
        for which in ("disk", "temp"):
            for m in re.finditer(r'<<"(\w+)", "(\w+)">> :>\s*\[[^\]]*?kind \|-> "(\w+)"', st[which]):
                ab.setdefault("%s/%s" % (m.group(1), m.group(2)), {})[which] = m.group(3)
        states.append({"pc": common.parse_tla(st["pc"]), "abs": ab, "hist": common.parse_tla(st["hist"])})
    return res, states


def replay(path):
    with open(path) as f:
        data = json.load(f)
    wd = common.workdir("replay_tmp", fresh=True)
    pf = os.path.join(wd, "plan.json")
    plan = data["replay"]["plan"]
    plan["states"] = []
    with open(pf, "w") as f:
        json.dump(plan, f)
    log = os.path.join(wd, "r.ndjson")
    common.run_driver("drv_c12", [pf, log])
    n, bad, st = common.validate_trace("Cache_Trace", log)
    bad = [b for b in bad if not b[1].startswith("DRIFT_")]
    print("failing clauses:", bad)
    return 1 if bad else 0
