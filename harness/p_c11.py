"""C11 - MCS-stage timeouts and failures are contained to the affected reaction."""
import itertools
import json
import os
import random

from harness import common
from harness.common import Report

CONDS = ["MCIS_ring", "MCIS", "MCES"]
BATCHES = [
    ["CC(=O)OCC>>CCO", "CCBr.[OH-]>>CCO", "CC(=O)OC>>CC(=O)O", "CCO>>CCO", "COC(=O)c1ccccc1.N>>NC(=O)c1ccccc1"],
    ["CCO>>CCO", "CCC(=O)OC>>CO", "CC>>CCC", "CC(=O)Nc1ccccc1>>Nc1ccccc1", "CC(=O)Cl.N>>CC(N)=O", "BrBr>>Cl",
     "CCOC(=O)CC>>CCC(=O)O"],
    # the same reaction more than once in a batch
    ["CC(=O)OCC>>CCO", "CCO>>CCO", "CC(=O)OCC>>CCO", "CC(=O)OC>>CC(=O)O", "CC(=O)OCC>>CCO", "CC(=O)OC>>CC(=O)O"],
]
# what a failing job can raise: the plain injected error, exceptions whose text is empty, multi-line and
# non-ASCII texts, exception types with special str() (KeyError quotes its argument)
EXC = ["exception", "exception:MemoryError", "exception:ValueError:", "exception:KeyError:C", "exception:AssertionError",
       "exception:RuntimeError:Pre-condition Violation\\n\\tgetNumImplicitHs() called without preceding call\\n",
       "exception:IndexError", "exception:ZeroDivisionError:division by zero", "exception:RuntimeError:\\nleading break",
       "exception:ValueError:d\u00e9faut {0} %s", "exception:KeyError", "exception:RecursionError:maximum recursion depth exceeded"]


def _row(e):
    return {"reaction": e["reaction"], "input_reaction": e["input_reaction"], "solved": e["solved"], "by": e["by"],
            "conf_raw": e["conf_raw"], "issue": e["issue"], "rules": e["rules"], "out": e["out"], "input": e["argstr"]}


def _mcs_rows(stages_file, run_id, bs=None):
    """positions (in the call) that reached the MCS stage in a run and their sorted reactants"""
    cur = None
    out = {}
    nbatch = 0
    with open(stages_file) as f:
        for line in f:
            e = json.loads(line)
            if e["ev"] == "run_begin":
                cur = e["run"]
            elif e["ev"] == "stage" and cur == run_id and e["name"] == "mcs_search":
                off = nbatch * bs if bs else 0
                nbatch += 1
                for pos, r in enumerate(e["rows"]):
                    if "mcs" in r:
                        m = r["mcs"]
                        out[off + pos] = m["sorted_reactants"] if isinstance(m, dict) else None
    return out


def fault_plans(mcs, rng, tier, n_jobs, bs=None):
    """fault plans over the job space of one call: mcs = {pos: sorted_reactants or None}. With a batch size the
    call is cut into batches and the search jobs are keyed by the row's id WITHIN its batch, so a planned fault
    hits the same position of every batch: see _spread."""
    if isinstance(bs, str):
        # a Balancer with another id column: the hook keys every search job of the call "None:<condition>", so a
        # planned search fault hits that condition of every reaction that reaches the MCS stage
        rows = sorted(mcs)
        plans = []
        for c in CONDS:
            plans.append(({"search_wait:None:%s" % c: "timeout"}, set(rows)))
            for x in EXC[: 4 if tier == "quick" else len(EXC)]:
                plans.append(({"search_thread:None:%s" % c: x}, set(rows)))
        for r in [q for q in rows if mcs[q]]:
            aff = {q for q in rows if mcs[q] == mcs[r]}
            plans.append(({"graph:%s" % mcs[r]: "exception:MemoryError"}, aff))
            plans.append(({"graph:%s" % mcs[r]: "timeout"}, aff))
        return plans
    plans = _fault_plans(mcs, rng, tier, n_jobs if bs is None else 0)
    if bs is None:
        return plans
    return [_spread(plan, aff, mcs, bs) for plan, aff in plans]


def _cfg(bs):
    """third element of a combination: a batch size (int), another id column (str) or nothing"""
    if isinstance(bs, str):
        return {"batch_size": None, "id_col": bs}
    return {"batch_size": bs}


def _spread(plan, aff, mcs, bs):
    rows = sorted(mcs)
    out, aff2 = {}, set(aff)
    for k, v in plan.items():
        if k.startswith("search_"):
            point, r, c = k.split(":")
            out["%s:%d:%s" % (point, int(r) % bs, c)] = v
            aff2 |= {q for q in rows if q % bs == int(r) % bs}
        else:
            out[k] = v
    return out, aff2


def _fault_plans(mcs, rng, tier, n_jobs):
    rows = sorted(mcs)
    plans = []
    sjobs = [(r, c) for r in rows for c in CONDS]
    gjobs = [r for r in rows if mcs[r]]
    # every single fault; the exception kinds rotate over the jobs (quick) or are all tried on every job
    nx = 0
    for r, c in sjobs:
        plans.append(({"search_wait:%d:%s" % (r, c): "timeout"}, {r}))
        for _ in range(2 if tier == "quick" else len(EXC)):
            plans.append(({"search_thread:%d:%s" % (r, c): EXC[nx % len(EXC)]}, {r}))
            nx += 1
    for r in gjobs:
        aff = {q for q in gjobs if mcs[q] == mcs[r]}
        plans.append(({"graph:%s" % mcs[r]: "timeout"}, aff))
        for _ in range(3 if tier == "quick" else len(EXC)):
            plans.append(({"graph:%s" % mcs[r]: EXC[nx % len(EXC)]}, aff))
            nx += 1
    # every subset of the conditions of one reaction
    for r in rows[: 2 if tier == "quick" else len(rows)]:
        for k in range(2, len(CONDS) + 1):
            for sub in itertools.combinations(CONDS, k):
                plans.append(({"search_wait:%d:%s" % (r, c): "timeout" for c in sub}, {r}))
                plans.append(({"search_thread:%d:%s" % (r, c): "exception" for c in sub}, {r}))
    # random subsets over all jobs, mixed kinds
    for _ in range(12 if tier == "quick" else 150):
        plan, aff = {}, set()
        for r, c in sjobs:
            x = rng.random()
            if x < 0.2:
                plan["search_wait:%d:%s" % (r, c)] = "timeout"
                aff.add(r)
            elif x < 0.35:
                plan["search_thread:%d:%s" % (r, c)] = rng.choice(EXC)
                aff.add(r)
        for r in gjobs:
            if rng.random() < 0.25:
                plan["graph:%s" % mcs[r]] = rng.choice(["timeout"] + EXC)
                aff |= {q for q in gjobs if mcs[q] == mcs[r]}
        if plan:
            plans.append((plan, aff))
    # all jobs of every reaction fail
    plans.append(({"search_wait:%d:%s" % (r, c): "timeout" for r, c in sjobs}, set(rows)))
    # zombie schedules (in-process jobs only): the timed-out search thread is parked and
    # released at a chosen later point of the pipeline, then writes into the returned record
    if n_jobs == 1:
        points = ["mcs_conditions", "mcs_selected", "mcs_search", "mcs_impute", "mcs_validate", "final_validate"]
        zr = rows[: 2 if tier == "quick" else len(rows)]
        for r in zr:
            for c in CONDS if tier != "quick" else CONDS[:2]:
                for pt in points if tier != "quick" else points[:4]:
                    g = "g_%d_%s" % (r, c)
                    plans.append(({"search_wait:%d:%s" % (r, c): "timeout",
                                   "search_thread:%d:%s" % (r, c): "gate:" + g,
                                   "open_at:" + pt: [g]}, {r}))
        # all three searches of one reaction time out and come back late together
        for r in zr[:1]:
            for pt in ("mcs_conditions", "mcs_search"):
                gs = ["g_%d_%s" % (r, c) for c in CONDS]
                plan = {"open_at:" + pt: gs}
                for c, g in zip(CONDS, gs):
                    plan["search_wait:%d:%s" % (r, c)] = "timeout"
                    plan["search_thread:%d:%s" % (r, c)] = "gate:" + g
                plans.append((plan, {r}))
    return plans


def run(tier):
    rep = Report("C11", tier)
    rep.add_model(common.design_check("Faults", "MC_Faults.cfg", workers=12, timeout=3000),
                  role="design: every fault pattern over (reaction, condition) and analysis jobs, zombie writes at any point")
    rep.add_model(common.neg_check("Faults", "Neg_Faults_shift.cfg", workers=8),
                  role="negative: an empty result shifting the totals of later reactions")
    rep.exhaustive = True
    rng = random.Random(common.seed() * 211 + 9)
    th = common.tree_hash()
    wd = common.workdir("rec", th, "c11_%s_%d" % (tier, common.seed()), fresh=True)
    events = []
    nid = 0
    jobs = []
    meta = []
    # (batch, worker count, batch size of the call)
    combos = [(0, 1, None), (1, 4, None), (2, 1, None), (1, 1, 3), (0, 1, "R-id")] if tier == "quick" else \
        [(0, 1, None), (1, 1, None), (0, 4, None), (1, 16, None), (2, 1, None), (2, 4, None), (1, 1, 3), (2, 4, 2), (0, 1, 2),
         (0, 1, "R-id"), (1, 4, "R-id")]
    # phase 1: fault-free reference per (batch, worker count) to learn which rows reach the MCS stage
    refs = {}
    for bi, nj, bs in combos:
        pf = os.path.join(wd, "ref_%d_%d_%s.json" % (bi, nj, bs))
        with open(pf, "w") as f:
            json.dump({"runs": [dict({"name": "ref", "inputs": BATCHES[bi], "n_jobs": nj, "threshold": 0}, **_cfg(bs))]}, f)
        lg = os.path.join(wd, "ref_%d_%d_%s.ndjson" % (bi, nj, bs))
        common.run_driver("drv_pipeline", [pf, lg])
        rows = [e for e in common.read_ndjson(lg) if e["ev"] == "row"]
        if len(rows) != len(BATCHES[bi]):
            raise common.MachineryError("reference run lost rows")
        refs[(bi, nj, bs)] = (rows, _mcs_rows(lg + ".stages.ndjson", 1, bs if isinstance(bs, int) else None))
    # phase 2: faulted runs, one driver process per combination
    for bi, nj, bs in combos:
        rows, mcs = refs[(bi, nj, bs)]
        plans = fault_plans(mcs, rng, tier, nj, bs)
        runs = [dict({"name": "ref2", "inputs": BATCHES[bi], "n_jobs": nj, "threshold": 0}, **_cfg(bs))]
        for k, (plan, aff) in enumerate(plans):
            runs.append(dict({"name": "f%d" % k, "inputs": BATCHES[bi], "n_jobs": nj, "threshold": 0, "faults": plan},
                             **_cfg(bs)))
        pf = os.path.join(wd, "plan_%d_%d_%s.json" % (bi, nj, bs))
        with open(pf, "w") as f:
            json.dump({"runs": runs}, f)
        lg = os.path.join(wd, "faulted_%d_%d_%s.ndjson" % (bi, nj, bs))
        jobs.append(("drv_pipeline", [pf, lg], None))
        meta.append((bi, nj, bs, plans, lg))
    common.run_drivers_parallel(jobs, timeout=4 * 3600)
    nplans = 0
    wallclock = 0
    for bi, nj, bs, plans, lg in meta:
        rows, mcs = refs[(bi, nj, bs)]
        nid += 1
        events.append({"ev": "ref", "id": nid, "batch": bi, "n_jobs": nj, "bs": bs if isinstance(bs, int) else (-1 if bs else 0), "rows": [_row(e) for e in rows]})
        by_run, raised = {}, {}
        for e in common.read_ndjson(lg):
            if e["ev"] == "row":
                by_run.setdefault(e["run"], []).append(e)
            elif e["ev"] == "run":
                raised[e["run"]] = e["raised"]
        # run 1 repeats the fault-free run in the same process: it must equal the reference
        nid += 1
        events.append({"ev": "faulted", "id": nid, "batch": bi, "n_jobs": nj, "bs": bs if isinstance(bs, int) else (-1 if bs else 0), "plan": {}, "affected": [],
                       "raised": raised.get(1, ""), "rows": [_row(e) for e in by_run.get(1, [])]})
        ref_slow = {p for p, e in enumerate(rows) if "timeout" in str(e["issue"]).lower()}
        for k, (plan, aff) in enumerate(plans):
            nid += 1
            nplans += 1
            rr = by_run.get(k + 2, [])
            # a row that hit a real wall-clock budget (machine under load), in this run or in the reference, is not
            # comparable: it counts as affected (the containment clauses are still evaluated on it)
            slow = {p for p, e in enumerate(rr) if p not in aff and "timeout" in str(e["issue"]).lower()} | (ref_slow - set(aff))
            wallclock += len(slow)
            events.append({"ev": "faulted", "id": nid, "batch": bi, "n_jobs": nj, "bs": bs if isinstance(bs, int) else (-1 if bs else 0), "plan": plan,
                           "affected": sorted(p + 1 for p in set(aff) | slow), "raised": raised.get(k + 2, ""),
                           "rows": [_row(e) for e in rr]})
    log = os.path.join(wd, "c11.ndjson")
    common.write_ndjson(log, events)
    n, bad, st = common.validate_trace("Fault_Trace", log, xmx="12g")
    rep.add_trace_stats(n, st)
    evd = {e["id"]: e for e in events}
    for eid, pos, clause in bad:
        e = evd[eid]
        x = e["rows"][pos - 1] if 1 <= pos <= len(e["rows"]) else {}
        refrow = None
        for r in events:
            if r["ev"] == "ref" and r["batch"] == e["batch"] and r["n_jobs"] == e["n_jobs"] and r["bs"] == e["bs"] \
                    and 1 <= pos <= len(r["rows"]):
                refrow = {k: v for k, v in r["rows"][pos - 1].items() if k != "out"}
        sig = "batch=%d n_jobs=%d%s plan=%s row=%s" % (e["batch"], e["n_jobs"], (" id_col=R-id" if e["bs"] == -1 else " bs=%d" % e["bs"]) if e["bs"] else "",
                                                      json.dumps(e["plan"], sort_keys=True), x.get("input"))
        kinds = sorted({("zombie" if "gate:" in str(v) else str(v)) if not k.startswith("open_at") else "zombie"
                        for k, v in e["plan"].items()})
        rep.fail(clause, sig, group="%s/%s" % (clause, "+".join(kinds) or "no-fault"),
                 detail={"plan": e["plan"], "affected_positions": e["affected"], "n_jobs": e["n_jobs"],
                         "row": {k: v for k, v in x.items() if k != "out"}, "reference_row": refrow,
                         "raised": e["raised"]},
                 replay={"inputs": BATCHES[e["batch"]], "n_jobs": e["n_jobs"], "plan": e["plan"], "batch_size": e["bs"] if e["bs"] > 0 else None, "id_col": "R-id" if e["bs"] == -1 else "id",
                         "affected": e["affected"]})
    rep.extra["rows_excluded_for_wallclock_timeouts"] = wallclock
    zomb = sum(1 for e in events if e["ev"] == "faulted" and any(k.startswith("open_at") for k in e["plan"]))
    changed = 0
    for e in events:
        if e["ev"] != "faulted" or not e["plan"]:
            continue
        r = [x for x in events if x["ev"] == "ref" and x["batch"] == e["batch"] and x["n_jobs"] == e["n_jobs"]][0]
        if len(e["rows"]) == len(r["rows"]) and any(a["solved"] != b["solved"] or a["issue"] != b["issue"]
                                                     for a, b in zip(e["rows"], r["rows"])):
            changed += 1
    rep.extra.update({"fault_plans_replayed": nplans, "zombie_schedules": zomb,
                      "plans_that_changed_an_affected_row": changed,
                      "combinations": [{"batch": b, "n_jobs": j, "batch_size": s_} for b, j, s_ in combos]})
    fl = [e for e in events if e["ev"] == "faulted" and e["plan"]]
    rep.sample({"plan": fl[0]["plan"], "affected": fl[0]["affected"],
                "rows": [{k: v for k, v in r.items() if k in ("input", "solved", "issue")} for r in fl[0]["rows"]]})
    rep.sample({"plan": fl[-1]["plan"], "affected": fl[-1]["affected"],
                "rows": [{k: v for k, v in r.items() if k in ("input", "solved", "issue")} for r in fl[-1]["rows"]]})
    rep.assumptions += ["timeouts are injected at the wait of single_mcs_safe / process_single_pair (the real except "
                        "branches run); RDKit's inner time budget and real wall-clock timeouts under load are not provoked",
                        "zombie writes are steered with file gates and only exist for in-process jobs (n_jobs=1)"]
    return rep.finish()


def replay(path):
    with open(path) as f:
        data = json.load(f)
    rp = data["replay"]
    wd = common.workdir("replay_tmp", fresh=True)
    pf = os.path.join(wd, "plan.json")
    with open(pf, "w") as f:
        json.dump({"runs": [{"name": "ref", "inputs": rp["inputs"], "n_jobs": rp["n_jobs"], "threshold": 0,
                             "batch_size": rp.get("batch_size"), "id_col": rp.get("id_col", "id")},
                            {"name": "f", "inputs": rp["inputs"], "n_jobs": rp["n_jobs"], "threshold": 0,
                             "faults": rp["plan"], "batch_size": rp.get("batch_size"), "id_col": rp.get("id_col", "id")}]}, f)
    lg = os.path.join(wd, "r.ndjson")
    common.run_driver("drv_pipeline", [pf, lg])
    by_run, raised = {}, {}
    for e in common.read_ndjson(lg):
        if e["ev"] == "row":
            by_run.setdefault(e["run"], []).append(e)
        elif e["ev"] == "run":
            raised[e["run"]] = e["raised"]
    events = [{"ev": "ref", "id": 1, "rows": [_row(e) for e in by_run.get(1, [])]},
              {"ev": "faulted", "id": 2, "plan": rp["plan"], "affected": rp["affected"], "raised": raised.get(2, ""),
               "rows": [_row(e) for e in by_run.get(2, [])]}]
    tl = os.path.join(wd, "t.ndjson")
    common.write_ndjson(tl, events)
    n, bad, st = common.validate_trace("Fault_Trace", tl)
    print("failing clauses:", bad)
    return 1 if bad else 0
