"""C12 driver: replays cache histories / on-disk states enumerated by TLC from
Cache.tla into real Balancer(cache=True) runs on a scratch cache directory and
records, per run, what was returned next to what the same call returns with
caching disabled.

How the real code writes an entry is observed, not assumed: one complete run
is executed under sys.addaudithook and the file operations inside the cache
directory (open for writing, rename/replace) are recorded; crash states are
then prefixes of whatever file the implementation was writing at that point.
"""
import json
import logging
import os
import shutil
import sys

from harness import common

BATCHES = {
    "b1": ["CC(=O)OCC>>CCO", "CCO>>CCO"],
    "b2": ["CCC(=O)OC>>CO", "CCBr.[OH-]>>CCO"],
    "b3": ["CC(=O)OC>>CC(=O)O", "CC>>CCC"],
    # batches with malformed rows: the same valid rows around different / no malformed rows
    "bm1": ["CC(=O)OCC>>CCO", "CC)O>>CCO", "CCO>>CCO"],
    "bm2": ["CC(=O)OCC>>CCO", "CC.O", "CCO>>CCO"],
    "bm3": ["CC(=O)OCC>>CCO", "CCO>>CCO", "C(C>>CC"],
    "bm4": ["CCC(=O)OC>>CO", "CCO", "CCO", "CCC(=O)OC>>CO"],
    # near-twins that any normalisation of the key would conflate: mirror images, another atom order / molecule
    # order, atom-mapped spelling
    "bs1": ["N[C@@H](C)C(=O)OC>>N[C@@H](C)C(=O)O", "C[C@H](O)CC(=O)OCC>>C[C@H](O)CC(=O)O"],
    "bs2": ["N[C@H](C)C(=O)OC>>N[C@H](C)C(=O)O", "C[C@@H](O)CC(=O)OCC>>C[C@@H](O)CC(=O)O"],
    "bo1": ["CC(=O)OCC>>CCO", "CCBr.[OH-]>>CCO"],
    "bo2": ["CCOC(C)=O>>OCC", "[OH-].BrCC>>OCC"],
    "b4": ["CC(=O)Nc1ccccc1>>Nc1ccccc1", "CCO>>CCO"],     # MCS confidence 0.392
    "bo3": ["[CH3:1][C:2](=[O:3])[O:4][CH2:5][CH3:6]>>[CH3:6][CH2:5][OH:4]", "CCBr.[OH-]>>CCO"],
}
# rows that carry further columns (a previous run's output fed back in, a CSV with metadata): the columns the
# pipeline passes through (confidence, rules, issue, solved_by) are part of what a run returns
def _extra(tag, k):
    return {"confidence": round(0.1 * (k + 1) + (0.011 if tag == "x" else 0.022), 3), "rules": ["prior-" + tag],
            "issue": "prior issue " + tag, "solved_by": "prior-run-" + tag, "note": "n%s%d" % (tag, k),
            "id": "row-%s-%d" % (tag, k)}


ROWS_EXTRA = {"b1x": ("b1", "x"), "b1y": ("b1", "y"), "b3x": ("b3", "x")}
# bs: batch_size of the call (None = the whole input is one batch); keycfg: the part of the configuration the
# result depends on (the batch size only decides how the input is cut)
CFGS = {"t0": {"threshold": 0, "col": "reaction", "bs": 2, "keycfg": "t0"},
        "t5": {"threshold": 0.5, "col": "reaction", "bs": 2, "keycfg": "t5"},
        "t9": {"threshold": 0.9, "col": "reaction", "bs": 2, "keycfg": "t9"},
        "c0": {"threshold": 0, "col": "rxn", "bs": 2, "keycfg": "c0"},
        # two thresholds closer together than the three decimals a confidence is reported with
        "ta": {"threshold": 0.3916, "col": "reaction", "bs": 2, "keycfg": "ta"},
        "tb": {"threshold": 0.3924, "col": "reaction", "bs": 2, "keycfg": "tb"},
        "tc": {"threshold": 0.39199, "col": "reaction", "bs": 2, "keycfg": "tc"},
        "n0": {"threshold": 0, "col": "reaction", "bs": None, "keycfg": "t0"},
        "n5": {"threshold": 0.5, "col": "reaction", "bs": None, "keycfg": "t5"}}


def rows_of(name, col):
    if name in ROWS_EXTRA:
        base, tag = ROWS_EXTRA[name]
        return [dict(_extra(tag, k), **{col: s}) for k, s in enumerate(BATCHES[base])]
    return [{col: s} for s in BATCHES[name]]


def chunks_of(batches, cfgname):
    """the physical batches of the call, each identified by the rows it holds"""
    col = CFGS[cfgname]["col"]
    rows = []
    for b in batches:
        rows += [json.dumps(r, sort_keys=True) for r in rows_of(b, col)]
    bs = CFGS[cfgname]["bs"] or len(rows)
    return [rows[k:k + bs] for k in range(0, len(rows), bs)]


def sig(row, col):
    return json.dumps([row.get("input_reaction"), row.get(col), row.get("solved"), row.get("solved_by"),
                       repr(row.get("confidence")), row.get("issue"), row.get("rules")])


class Runner:
    def __init__(self):
        logging.disable(logging.CRITICAL)
        from synrbl import Balancer
        self.Balancer = Balancer
        self.bal = {}
        self.devnull = open(os.devnull, "w")

    def run(self, batches, cfgname, cache_dir, trace=None, nostats=False):
        cfg = CFGS[cfgname]
        col = cfg["col"]
        self.nrun = getattr(self, "nrun", 0) + 1
        if col not in self.bal or self.nrun % 3 == 0:
            # entries are shared between Balancer objects (and processes): every third run uses a new one
            self.bal[col] = self.Balancer(reaction_col=col, n_jobs=1)
        b = self.bal[col]
        b.confidence_threshold = cfg["threshold"]
        b.cache = cache_dir is not None
        b.cache_dir = cache_dir
        inputs = []
        for name in batches:
            inputs += rows_of(name, col)
        stats = {}
        if trace:
            os.environ["SYNRBL_VERIF_TRACE"] = trace
            if os.path.exists(trace):
                os.remove(trace)
        else:
            os.environ.pop("SYNRBL_VERIF_TRACE", None)
        err = ""
        rows = []
        fd = os.dup(2)
        os.dup2(self.devnull.fileno(), 2)
        try:
            # a caller that does not ask for statistics (the default of rebalance) must not change what later callers get
            rows = b.rebalance(inputs, output_dict=True, stats=None if nostats else stats, batch_size=cfg["bs"])
        except Exception as ex:
            err = repr(ex)
        finally:
            os.dup2(fd, 2)
            os.close(fd)
        hits = []
        if trace and os.path.exists(trace):
            for e in common.read_ndjson(trace):
                if e["ev"] == "batch":
                    hits.append(bool(e["cache_hit"]))
        return {"rows": [sig(r, col) for r in rows], "stats": {k: int(v) for k, v in stats.items()},
                "raised": err, "hits": hits}


def cli_run(batches, cfgname, cache_dir, wd, devnull):
    """python -m synrbl run <csv> -o <out> [--cache --cache-dir d] through the argparse entry point; returns the
    output file's records and the .stats file"""
    import argparse
    import csv as _csv
    from synrbl.SynCmd import cmd_run
    cfg = CFGS[cfgname]
    col = cfg["col"]
    src = os.path.join(wd, "c12_cli_in.csv")
    dst = os.path.join(wd, "c12_cli_out.csv")
    for p_ in (dst, dst + ".stats"):
        if os.path.exists(p_):
            os.remove(p_)
    rows_in = []
    for name in batches:
        rows_in += [r[col] for r in rows_of(name, col)]
    with open(src, "w", newline="") as f:
        w = _csv.DictWriter(f, fieldnames=["rid", col])
        w.writeheader()
        for k, r in enumerate(rows_in):
            w.writerow({"rid": "r%d" % k, col: r})
    ap = argparse.ArgumentParser()
    sub = ap.add_subparsers()
    cmd_run.configure_argparser(sub)
    argv = ["run", src, "-o", dst, "-p", "1", "--col", col, "--out-columns", "rid"]
    if cfg["bs"]:
        argv += ["--batch-size", str(cfg["bs"])]
    if cfg["threshold"]:
        argv += ["--min-confidence", str(cfg["threshold"])]
    if cache_dir:
        argv += ["--cache", "--cache-dir", cache_dir]
    err = ""
    fd = os.dup(2)
    os.dup2(devnull.fileno(), 2)
    try:
        args = ap.parse_args(argv)
        args.func(args)
    except BaseException as ex:
        err = repr(ex)
    finally:
        os.dup2(fd, 2)
        os.close(fd)
    rows, stats = [], {}
    if os.path.exists(dst):
        with open(dst, newline="") as f:
            rows = [json.dumps(r, sort_keys=True) for r in _csv.DictReader(f)]
    if os.path.exists(dst + ".stats"):
        with open(dst + ".stats") as f:
            stats = {k: int(v) for k, v in json.load(f).items()}
    return {"rows": rows, "stats": stats, "raised": err, "hits": []}


def main():
    plan_file, out_file = sys.argv[1], sys.argv[2]
    with open(plan_file) as f:
        plan = json.load(f)
    wd = os.path.dirname(out_file)
    cdir = os.path.join(wd, "cache_scratch")
    trace = os.path.join(wd, "c12_hook.ndjson")
    R = Runner()
    keys = plan["keys"]          # list of [batch, cfg]
    # 1. no-cache references
    ref = {}
    for b, c in keys:
        ref[(b, c)] = R.run([b], c, None)
    refs = {}

    def reference(batches, cfgname):
        """the same call with caching disabled (memoised)"""
        k = (tuple(batches), cfgname)
        if k not in refs:
            refs[k] = ref[(batches[0], cfgname)] if len(batches) == 1 and (batches[0], cfgname) in ref \
                else R.run(list(batches), cfgname, None)
        return refs[k]

    # 2. observe one real cached run per key: file operations and the entry's bytes
    ops_seen = {}
    entry = {}
    for b, c in keys:
        shutil.rmtree(cdir, ignore_errors=True)
        os.makedirs(cdir)
        ops = []
        active = [True]

        def hook(event, args, ops=ops, active=active):
            if not active[0]:
                return
            try:
                if event == "open" and isinstance(args[0], str) and os.path.abspath(args[0]).startswith(cdir):
                    mode = args[1] if len(args) > 1 else "r"
                    if mode and any(ch in str(mode) for ch in "wax+"):
                        ops.append(["open_w", os.path.basename(args[0])])
                elif event in ("os.rename", "os.replace") and os.path.abspath(str(args[0])).startswith(cdir):
                    ops.append(["replace", os.path.basename(str(args[0])), os.path.basename(str(args[1]))])
                elif event == "os.remove" and os.path.abspath(str(args[0])).startswith(cdir):
                    ops.append(["remove", os.path.basename(str(args[0]))])
            except Exception:
                pass

        sys.addaudithook(hook)
        first = R.run([b], c, cdir)
        active[0] = False
        files = sorted(os.listdir(cdir))
        finals = [f for f in files if f.endswith(".cache")]
        if len(finals) != 1:
            raise SystemExit("expected exactly one cache entry after one cached run, found %r" % files)
        with open(os.path.join(cdir, finals[0]), "rb") as f:
            data = f.read()
        written = [o[1] for o in ops if o[0] == "open_w"]
        entry[(b, c)] = {"final": finals[0], "bytes": data, "written_path": written[-1] if written else finals[0],
                         "in_place": (written[-1] if written else finals[0]) == finals[0], "ops": ops,
                         "leftovers": [f for f in files if f not in finals]}
        ops_seen["%s/%s" % (b, c)] = ops
        first["expected"] = ref[(b, c)]
    events = []
    nid = [0]

    def emit(e):
        e["chunks"] = chunks_of(e["batches"], e["cfg"])
        e["keycfg"] = CFGS[e["cfg"]]["keycfg"]
        if any("terminated by timeout" in r for r in e.get("returned", []) + e.get("expected", [])):
            return   # a wall-clock budget was hit in one of the two runs: not reproducible
        nid[0] += 1
        e["id"] = nid[0]
        events.append(e)

    def install(state, cut_salt):
        """state: {"b/c": {"disk": kind, "temp": kind}}; returns description"""
        shutil.rmtree(cdir, ignore_errors=True)
        os.makedirs(cdir)
        desc = {}
        for kc, st in state.items():
            b, c = kc.split("/")
            if (b, c) not in entry:
                continue
            en = entry[(b, c)]
            data = en["bytes"]
            cuts = [0, 1, len(data) // 3, len(data) // 2, len(data) - 1]
            cut = cuts[cut_salt % len(cuts)]
            for which, path in (("disk", en["final"]), ("temp", en["written_path"])):
                kind = st.get(which, "absent")
                if which == "temp" and en["in_place"]:
                    continue     # the implementation has no temp file
                if kind == "full":
                    content = data
                elif kind == "partial":
                    if which == "disk" and not en["in_place"]:
                        continue  # the implementation never leaves a truncated final file
                    content = data[:cut]
                else:
                    continue
                with open(os.path.join(cdir, path), "wb") as f:
                    f.write(content)
                desc["%s:%s" % (kc, which)] = kind if kind == "full" else "partial[%d/%d]" % (cut, len(data))
        return desc

    # 3. one-step replay from every abstract directory state enumerated by TLC
    for n, item in enumerate(plan["states"]):
        desc = install(item["state"], n)
        for run in item["runs"]:
            install(item["state"], n)
            res = R.run(run["batches"], run["cfg"], cdir, trace)
            rr = reference(run["batches"], run["cfg"])
            exp_rows, exp_stats = rr["rows"], rr["stats"]
            emit({"ev": "run", "kind": "state", "installed": desc, "cfg": run["cfg"], "batches": run["batches"],
                  "returned": res["rows"], "expected": exp_rows, "stats": res["stats"], "exp_stats": exp_stats,
                  "raised": res["raised"], "hits": res["hits"]})
    # 4. multi-run histories on one directory (no crash): TLC behaviours
    for h in plan["histories"]:
        shutil.rmtree(cdir, ignore_errors=True)
        os.makedirs(cdir)
        for step, run in enumerate(h):
            res = R.run(run["batches"], run["cfg"], cdir, trace, nostats=bool(run.get("nostats")))
            rr = reference(run["batches"], run["cfg"])
            exp_rows, exp_stats = rr["rows"], ({} if run.get("nostats") else rr["stats"])
            emit({"ev": "run", "kind": "history", "installed": {"history_step": step}, "cfg": run["cfg"],
                  "batches": run["batches"], "returned": res["rows"], "expected": exp_rows, "stats": res["stats"],
                  "exp_stats": exp_stats, "raised": res["raised"], "hits": res["hits"],
                  "history": h[: step + 1]})
    # 4b. the command line (--cache --cache-dir): the same histories, compared with the command line without --cache
    cli_refs = {}
    for h in plan.get("cli_histories", []):
        shutil.rmtree(cdir, ignore_errors=True)
        os.makedirs(cdir)
        for step, run in enumerate(h):
            k = (tuple(run["batches"]), run["cfg"])
            if k not in cli_refs:
                cli_refs[k] = cli_run(run["batches"], run["cfg"], None, wd, R.devnull)
            res = cli_run(run["batches"], run["cfg"], cdir, wd, R.devnull)
            emit({"ev": "run", "kind": "cli", "installed": {"history_step": step}, "cfg": run["cfg"],
                  "batches": run["batches"], "returned": res["rows"], "expected": cli_refs[k]["rows"], "stats": res["stats"],
                  "exp_stats": cli_refs[k]["stats"], "raised": res["raised"] or cli_refs[k]["raised"], "hits": [],
                  "history": h[: step + 1]})
    # 5. byte-prefix sweep of the file the implementation was writing
    b, c = keys[0]
    en = entry[(b, c)]
    data = en["bytes"]
    step = plan.get("prefix_step", 97)
    cuts = sorted(set(list(range(0, len(data), step)) + [1, 2, len(data) - 2, len(data) - 1, len(data)]))
    for cut in cuts:
        shutil.rmtree(cdir, ignore_errors=True)
        os.makedirs(cdir)
        with open(os.path.join(cdir, en["written_path"]), "wb") as f:
            f.write(data[:cut])
        res = R.run([b], c, cdir, trace)
        rr = ref[(b, c)]
        emit({"ev": "run", "kind": "prefix", "installed": {en["written_path"]: "prefix[%d/%d]" % (cut, len(data))},
              "cfg": c, "batches": [b], "returned": res["rows"], "expected": rr["rows"], "stats": res["stats"],
              "exp_stats": rr["stats"], "raised": res["raised"], "hits": res["hits"]})
    shutil.rmtree(cdir, ignore_errors=True)
    common.write_ndjson(out_file, events)
    print(json.dumps({"events": len(events), "write_ops": ops_seen,
                      "in_place": {"%s/%s" % k: v["in_place"] for k, v in entry.items()},
                      "entry_bytes": {"%s/%s" % k: len(v["bytes"]) for k, v in entry.items()}}))


if __name__ == "__main__":
    main()
