"""C15 driver: real remove_atom_mapping on (a) every bracket-atom form of the
bounded AtomMap model rendered as a molecule, (b) mapped corpus reactions and
generated molecules over the periodic table."""
import json
import random
import re
import sys

from rdkit import Chem

from harness import oracle, common, corpus, gen
from synrbl.SynUtils.chem_utils import remove_atom_mapping

CTX_FORMS = {
    0: [""],
    1: ["C", "Cl"],
    2: ["(C)C", "=O", "(C)Cl"],
    3: ["(C)(C)C", "(=O)C", "#N", "(C)(C)O"],
    4: ["(C)(C)(C)C", "(=O)(C)C", "(=O)=O", "(=O)(O)C"],
    5: ["(=O)(=O)C", "(=O)(C)(C)C", "(C)(C)(C)(C)C"],
    6: ["(=O)(=O)(C)C", "(=O)(=O)(O)O", "(F)(F)(F)(F)(F)F"],
}


def closed_shell(mol):
    return all(a.GetNumRadicalElectrons() == 0 for a in mol.GetAtoms())


def ident_nomap(smiles):
    m = oracle.parse(smiles)
    if m is None:
        return None, None
    frags = Chem.GetMolFrags(m, asMols=True)
    return sorted(oracle.ident(f) for f in frags), closed_shell(m)


def render(a, tail):
    s = "["
    if a["iso"]:
        s += str(a["iso"])
    s += a["sym"].lower() if a["arom"] else a["sym"]
    s += a["chir"]
    if a["h"] == 1:
        s += "H"
    elif a["h"] > 1:
        s += "H%d" % a["h"]
    if a["q"] == 1:
        s += "+"
    elif a["q"] == -1:
        s += "-"
    if a["map"]:
        s += ":%d" % a["map"]
    return s + "]" + tail


def judge(smiles):
    before, closed = ident_nomap(smiles)
    if before is None:
        return None
    out = remove_atom_mapping(smiles)
    after, _ = ident_nomap(out)
    om = oracle.parse(out)
    # map numbers that survive: read from the parsed output (a ':' outside brackets is an aromatic bond)
    residual = sum(1 for a in om.GetAtoms() if a.GetAtomMapNum() > 0) if om is not None else len(re.findall(r":\d+\]", out))
    return {"smiles": smiles, "out": out, "out_parses": after is not None, "same": after == before,
            "residual": residual, "closed": bool(closed)}


def main():
    states_file, out_file, tier, seed = sys.argv[1], sys.argv[2], sys.argv[3], int(sys.argv[4])
    rng = random.Random(seed)
    ev = []

    def add(e):
        e["id"] = len(ev) + 1
        ev.append(e)

    with open(states_file) as f:
        states = json.load(f)
    n_valid = 0
    for st in states:
        a, ctx = st["a"], st["ctx"]
        if a["arom"]:
            continue  # aromatic forms are rendered from ring templates below
        for tail in CTX_FORMS[ctx]:
            smi = render(a, tail)
            j = judge(smi)
            if j is None:
                continue
            n_valid += 1
            tok = j["out"][: j["out"].index("]") + 1] if j["out"].startswith("[") else ""
            j.update({"ev": "atom", "atom": a, "ctx": ctx, "out_bracketed": j["out"].startswith("[")})
            add(j)
    # aromatic / ring / chiral / two-letter templates with maps
    templates = ["[cH:1]1[cH:2][cH:3][cH:4][cH:5][cH:6]1", "[nH:1]1[cH:2][cH:3][cH:4][cH:5]1", "[n:1]1ccccc1",
                 "[o:3]1cccc1", "[s:2]1cccc1", "[se:1]1cccc1", "[n+:1]1(C)ccccc1", "[nH+:4]1ccccc1", "[c:1]1(C)ccccc1",
                 "[c-:1]1cccc1", "[C@H:1](F)(Cl)Br", "[C@@:2](F)(Cl)(Br)I", "[C@@H:3](N)(C)C(=O)O", "C[S@:4](=O)CC",
                 "[N@+:5](C)(CC)(CCC)CCCC", "C[P@:6](=O)(O)CC", "[Si:1](C)(C)(C)C", "[SiH3:2]C", "[Sn:4](C)(C)(C)Cl",
                 "[Na+:1].[Cl-:2]", "[Cu:1]", "[Co+2:3]", "[Cs+:1]", "[Sc+3:2]", "[Pd:1]", "[Pb:1](C)(C)(C)C", "[Bi:3]",
                 "[B:1](O)(O)c1ccccc1", "[BH4-:1]", "[BH3-:2]C#N", "[NH4+:1]", "[OH-:2]", "[O-:1]C", "[NH3+:1]C",
                 "[13CH3:1][OH:2]", "[2H:1][O:2][2H:3]", "[13C:1](=O)=O", "[15NH2:3]C", "[18OH2:1]", "[H:1][H:2]",
                 "[CH3:1][CH2:2][OH:3]", "[CH3:12][C:13](=[O:14])[OH:15]", "[F:1][C:2]([F:3])([F:4])[Cl:5]",
                 "[Br:1][CH2:2][I:3]", "[ClH:1]", "[BrH:1]", "[IH:7]", "[FH:1]", "[SH2:1]", "[PH3:1]", "[OH2:1]", "[NH3:1]",
                 "[CH4:1]", "[BH3:1]", "[SH:1]C", "[PH2:1]C", "[PH:1](C)C", "[S:1](=O)(=O)(C)C", "[P:1](=O)(O)(O)O",
                 "[N:1](=O)(=O)C", "[N+:1](=O)([O-:2])C", "[ClH2+:1]", "[U:1]", "[Th+4:2]",
                 # explicit aromatic bond symbols followed by ring-closure digits, multiply charged and mapped ions,
                 # chirality classes, three-digit maps, '%' ring closures
                 "c1:c:c:c:c:c:1", "c1:c:c:c:c:c:1C", "[cH:1]1:[cH:2]:[cH:3]:[cH:4]:[cH:5]:[cH:6]:1", "c1:c:c2:c:c:c:c:2:c:c:1",
                 "n1:c:c:c:c:c:1", "[Mg+2:7]", "[Zn+2:7].[Cl-:1].[Cl-:2]", "[Fe+3:6]", "[Cu+2:1]", "[O-2:1]", "[S-2:1]",
                 "[Al+3:12]", "[C@TH1:1](F)(Cl)(Br)I", "[CH3:101][OH:102]", "[CH3:999]C", "C%10CCCCC%10[CH3:1]",
                 "[CH2:1]%11CC%11", "[NH3+:12]C", "[13CH3:1][C@@H:2](N)C(=O)[O-:4]", "[Ca++:3]", "[Ti+4:2]"]
    for t in templates:
        j = judge(t)
        if j is not None:
            j.update({"ev": "mol", "kind": "template"})
            add(j)
    # periodic table x forms with maps
    for sym in corpus.PERIODIC:
        for tm in ("[{s}:1]", "[{s}+:2]", "[{s}H:3]", "[{s}-:4]", "[3{s}:5]", "[{s}H2:6]", "[{s}:1](C)C", "C[{s}:7]"):
            j = judge(tm.format(s=sym))
            if j is not None:
                j.update({"ev": "mol", "kind": "element"})
                add(j)
    # mapped corpus reactions, side by side
    mapped = corpus.sample(corpus.mapped_reactions(), 800 if tier == "quick" else 20000, rng)
    for r in mapped:
        for side in r.split(">>"):
            if not side:
                continue
            j = judge(side)
            if j is not None:
                j.update({"ev": "mol", "kind": "corpus"})
                add(j)
    # unmapped corpus molecules with random maps / random spelling
    for s in corpus.molecules(limit=400 if tier == "quick" else 6000, rng=rng):
        ms, _ = gen.add_maps(s, rng, start=rng.randint(1, 90))
        for v in (ms, s):
            j = judge(v)
            if j is not None:
                j.update({"ev": "mol", "kind": "generated"})
                add(j)
    common.write_ndjson(out_file, ev)
    print(json.dumps({"events": len(ev), "atom_forms_rendered": n_valid, "model_states": len(states),
                      "closed_shell": sum(1 for e in ev if e["closed"])}))


if __name__ == "__main__":
    main()
