"""Coverage extension (not a listed property on its own): the labelling step that closes find_graph_dict -
GraphMissingUncertainty.fit - and RefinementUncertainty.fit, modelled in Uncertainty.tla. TLC checks the
design facts on every bounded case (labels are position-free, failed jobs are never certain, the first
quorum supplies the refined entry), the cases are replayed through the real classes and TLC judges every
output (Uncertainty_Trace). Disagreement is model drift: it is recorded in the evidence and printed as a
MODEL-DRIFT note, it is not a verdict on a listed property."""
import json
import os
import random

from harness import common


def run(rep, tier, wd):
    rep.add_model(common.neg_check("MC_Uncertainty", "Neg_Uncertainty.cfg"),
                  role="negative (uncertainty labels): zero-based membership test labels the neighbour")
    rep.add_model(common.neg_check("MC_Uncertainty", "Neg_Uncertainty_quorum.cfg"),
                  role="negative (refinement): taking the last quorum instead of the first")
    res, states = common.tlc_dump_states("MC_Uncertainty", "MC_Uncertainty.cfg", workers=4)
    if not res["ok"]:
        raise common.MachineryError("Uncertainty design model violated: %s" % res["violated"])
    rep.add_model(res, role="design (uncertainty labels / refinement): every bounded list of analysis results and "
                            "every bounded family of search conditions")
    if tier != "quick":
        rep.add_model(common.design_check("MC_Uncertainty", "MC_Uncertainty_big.cfg", workers=12, timeout=3000),
                      role="design (uncertainty labels / refinement), larger bound: lists of <= 3 results, <= 4 conditions, "
                           "four tokens (1.9 M cases; not replayed)")
    cases = []
    for s in states:
        if s["part"] == 1:
            cases.append({"part": 1, "l": [{"b": list(e["b"]), "s": list(e["s"])} for e in s["l"]]})
        else:
            cases.append({"part": 2, "conds": [dict(c) for c in s["conds"]], "final": dict(s["final"])})
    random.Random(common.seed() * 11 + 1).shuffle(cases)
    cf = os.path.join(wd, "uncertainty_cases.json")
    with open(cf, "w") as f:
        json.dump(cases, f)
    log = os.path.join(wd, "uncertainty.ndjson")
    info = json.loads(common.run_driver("drv_uncertainty", [cf, log, tier, common.seed()], timeout=3600).strip().splitlines()[-1])
    n, bad, st = common.validate_trace("Uncertainty_Trace", log, xmx="8g")
    rep.add_trace_stats(n, st)
    events = {e["id"]: e for e in common.read_ndjson(log)}

    def flip(e):
        if e["ev"] == "certainty" and e["out"]:
            e["out"][-1] = not e["out"][-1]
            return e
        if e["ev"] == "refine" and e["out"] and e["conds"]:
            e["out"][0]["src"] = (e["out"][0]["src"] + 1) % (len(e["conds"]) + 1)
            return e
        return None
    if not bad:
        common.binding_selftest(rep, "Uncertainty_Trace", log, flip, n=40)
    by_clause, examples = {}, {}
    for eid, clause in bad:
        e = events[eid]
        by_clause[clause] = by_clause.get(clause, 0) + 1
        examples.setdefault(clause, {k: e.get(k) for k in ("ev", "entries", "conds", "final", "num", "th", "out", "raised")})
    info.update({"drift_by_clause": by_clause, "drift_examples": examples,
                 "bounded_cases_in_model": len(states), "bounded_cases_replayed": len(cases)})
    rep.extra["uncertainty_model"] = info
    if by_clause:
        print("MODEL-DRIFT uncertainty labels: %d events are not explained by Uncertainty.tla: %s"
              % (sum(by_clause.values()), json.dumps(by_clause)))
    return info
