"""C20 driver: real MoleculeStandardizer calls on generated enols, enolates,
hemiketals / gem-diols / orthoacids, alkoxides, mixtures, in several atom orders,
and on corpus molecules; every output is fed back once."""
import json
import random
import sys

from rdkit import Chem

from harness import oracle, common, corpus
from synrbl.SynChemImputer.molecule_standardizer import MoleculeStandardizer

ENOLS = ["C=CO", "CC(O)=C", "OC(C)=C", "C=C(C)O", "OC1=CCCC1", "C1CCC(O)=C1", "CC=C(O)C", "OC(=C)c1ccccc1", "CC(O)=CC",
         "OC=CC", "C(=CO)C", "OC(C)=CC(C)C", "CCC(O)=CC", "C=C(O)CC", "OC1=CCCCC1", "C(O)=C", "N#CC=C(O)C", "CC(O)=CC(=O)OC",
         "OC(=CC)C(F)(F)F", "ClC=C(O)C", "C=C(O)OC", "CC(=C)O", "OC(=C)C=C"]
CHARGED = ["C=C[O-]", "CC([O-])=C", "[O-]C(C)=CC", "C=C[O-].[Na+]", "CC(=C)O[Na]", "C=CO[Li]", "C=C(C)[O-].[K+]", "[O-]C1=CCCC1",
           "C=C(O)C[N+](C)(C)C", "C=C(O)CC(=O)[O-]", "[NH3+]CC(O)=C"]
HEMI = ["CC(O)(O)C", "OC(O)CC", "CC(O)(OC)C", "CC(O)OC", "OC(O)C", "CC(O)(O)O", "OC(O)(O)C", "OC1(O)CCCC1", "OC1(OC)CCCC1",
        "CC(O)(O)C(F)(F)F", "OC(O)c1ccccc1", "OCO", "OC(O)=O", "COC(O)(C)C", "CC(O)(OCC)CC", "OC(O)(C)CC(O)(O)C", "OC(OC)(OC)C"]
MULTI = ["C=CO.C=CO", "OC=CC=CO", "C=C(O)C(O)=C", "CC(O)=CC(C)=O", "C=CO.CC(O)(O)C", "OC(C)=CCC(O)=C", "C=CO.O", "N.C=CO",
         "C=CO.CC(O)=C", "CC(O)(O)CC=C(O)C", "C=CO.C=CO.C=CO", "OC1=CCC(O)=CC1", "CC(O)=C.[Na+].[Cl-]", "C=CO.CCO.CC(=O)O"]
PLAIN = ["CCO", "CC(=O)C", "c1ccccc1O", "Oc1ccc(O)cc1", "CC(=O)O", "O", "CCOC(C)=O", "c1ccc2ccccc2c1O", "OC1=CC=CC=C1", "C=COC",
         "C=CN", "CC(N)=C", "OCC=C", "C=CCO", "[Na+].[Cl-]", "CC[O-].[Na+]", "C[N+](C)(C)CC(=O)[O-]", "O=C=O", "OO", "[H][H]"]


def facts(s):
    c = oracle.comp(s)
    m = oracle.parse(s)
    if c is None or m is None:
        return None
    frags = Chem.GetMolFrags(m, asMols=True)
    return {"comp": c[0], "q": c[1], "ident": sorted(oracle.ident(f) for f in frags)}


def respell(s, rng):
    parts = []
    for t in s.split("."):
        m = oracle.parse(t)
        parts.append(Chem.MolToSmiles(m, doRandom=True, canonical=False) if m is not None else t)
    rng.shuffle(parts)
    return ".".join(parts)


def main():
    out_file, tier, seed = sys.argv[1], sys.argv[2], int(sys.argv[3])
    rng = random.Random(seed)
    import logging
    logging.disable(logging.CRITICAL)
    from synrbl import Balancer
    chain = list(Balancer(n_jobs=1).mcs_method.smiles_standardizer)   # the standardizers as the pipeline wires them

    def wired(x):
        for f in chain:
            x = f(x)
        return x
    standardizers = [("default", MoleculeStandardizer()), ("pipeline", wired)]
    ev = []
    inputs = []
    nresp = 4 if tier == "quick" else 25
    for group, items in (("enol", ENOLS), ("charged", CHARGED), ("hemiketal", HEMI), ("multi", MULTI), ("plain", PLAIN)):
        for s in items:
            inputs.append((group, s))
            for _ in range(nresp):
                inputs.append((group, respell(s, rng)))
    # mixtures / molecules with one group the rewrite refuses and several it accepts
    refused = ["C=C[O-]", "CC([O-])O", "CC(O)(OC)C", "[O-]C(C)=CC", "CC(=C)O[Na]", "OC1(OC)CCCC1",
               "C=C([O-])O", "CC=C([O-])O", "OC(=C)[O-]", "C=C(O)S"]
    accepted = ["C=CO", "CC(O)O", "CC(O)=C", "OC1=CCCC1", "CC(O)(O)C", "OC(=C)c1ccccc1"]
    for r_ in refused:
        for k in range(len(accepted)):
            a, b = accepted[k], accepted[(k + 2) % len(accepted)]
            inputs.append(("multi", ".".join([r_, a, b])))
            inputs.append(("multi", ".".join([a, r_, b, a])))
    inputs += [("multi", x) for x in ("C=C([O-])O.C=CO", "CC=C([O-])O.CC=CO", "C=C(O)C(C=C([O-])O)C=C(O)S", "C=CO.C=C([O-])O.C=CO",
                                      "[O-]C=CC(O)O.C=CO", "[O-]C=CCC(O)=CCC(O)=C", "[O-]C=CCC(O)(O)CC(O)=C",
                                      "C=C[O-].C=CO.C=CO", "CC([O-])O.CC(O)O.CC(O)O", "OC=CCC(O)=CCC(O)=C",
                                      "OC(O)CC(O)(O)CC(O)O", "C=C(O)CC(O)(OC)CC(O)=C")]
    # atoms with an explicit hydrogen count / isotopes at the rewritten positions, metal-bearing oxygens
    inputs += [("charged", x) for x in ("[13CH2]=CO", "[13CH2]=C(C)O", "C=[13CH]O", "[2H]C([2H])=CO", "CC(O)(O[Na])C", "CC(O)(O[Li])C",
                                        "CC(O)(O[Mg]Br)C", "C=CO[Na]", "[CH2]=[CH]O", "C=C(O)[SiH3]", "OC(O)[13CH3]",
                                        "C[13C](O)(O)C", "C=C([18OH])C", "CC([18OH])O")]
    for s in corpus.molecules(limit=300 if tier == "quick" else 6000, rng=rng):
        inputs.append(("corpus", s))
    seen = set()
    for via, st in standardizers:
      for group, s in inputs:
          if (via, group, s) in seen:
              continue
          seen.add((via, group, s))
          fi = facts(s)
          if fi is None:
              continue
          e = {"ev": "std", "id": len(ev) + 1, "via": via, "group": group, "smiles": s, "in_comp": fi["comp"], "in_q": fi["q"],
               "out": "", "raised": "", "out_parses": False, "out_comp": {}, "out_q": 0,
               "out2": "", "raised2": "", "out2_parses": False, "out2_same": False}
          try:
              out = st(s)
              e["out"] = out if isinstance(out, str) else repr(out)
          except Exception as ex:
              e["raised"] = "%s: %s" % (type(ex).__name__, str(ex)[:80])
          if not e["raised"]:
              fo = facts(e["out"])
              if fo is not None:
                  e["out_parses"] = True
                  e["out_comp"], e["out_q"] = fo["comp"], fo["q"]
                  try:
                      out2 = st(e["out"])
                      e["out2"] = out2 if isinstance(out2, str) else repr(out2)
                      f2 = facts(e["out2"])
                      if f2 is not None:
                          e["out2_parses"] = True
                          e["out2_same"] = f2["ident"] == fo["ident"]
                  except Exception as ex:
                      e["raised2"] = "%s: %s" % (type(ex).__name__, str(ex)[:80])
          ev.append(e)
    common.write_ndjson(out_file, ev)
    print(json.dumps({"events": len(ev), "changed_by_standardizer": sum(1 for e in ev if e["out_parses"] and e["out"] and
                      facts(e["smiles"])["ident"] != facts(e["out"])["ident"]),
                      "by_group": {g: sum(1 for e in ev if e["group"] == g) for g in ("enol", "charged", "hemiketal", "multi", "plain", "corpus")}}))


if __name__ == "__main__":
    main()
