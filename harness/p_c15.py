"""C15 - atom-map removal keeps every molecule chemically identical."""
import json
import os

from harness import common, pipeline_rec
from harness.common import Report


def run(tier):
    rep = Report("C15", tier)
    rep.add_model(common.design_check("MC_AtomMap", "MC_AtomMap.cfg", workers=8),
                  role="design (valence guard): every bracket-atom form x bond context keeps element/isotope/charge/chirality/H")
    rep.add_model(common.design_check("MC_AtomMap", "MC_AtomMap_asbuilt.cfg", workers=8),
                  role="as built: the hypervalent hydrides are exactly the forms that change")
    rep.add_model(common.neg_check("MC_AtomMap", "Neg_AtomMap.cfg"), role="negative: as-built regex without the guard")
    rep.exhaustive = True
    th = common.tree_hash()
    wd = common.workdir("rec", th, "c15_%s_%d" % (tier, common.seed()), fresh=True)
    res, states = common.tlc_dump_states("MC_AtomMap", "MC_AtomMap_asbuilt.cfg", workers=8)
    sf = os.path.join(wd, "states.json")
    with open(sf, "w") as f:
        json.dump([{"a": s["a"], "ctx": s["ctx"]} for s in states], f)
    log = os.path.join(wd, "c15.ndjson")
    info = json.loads(common.run_driver("drv_c15", [sf, log, tier, common.seed()], timeout=3 * 3600).strip().splitlines()[-1])
    n, bad, st = common.validate_trace("AtomMap_Trace", log, xmx="12g")
    rep.add_trace_stats(n, st)
    events = {e["id"]: e for e in common.read_ndjson(log)}
    drift = 0
    for eid, clause in bad:
        e = events[eid]
        if clause.startswith("DRIFT_"):
            drift += 1
            continue
        if e["ev"] == "atom":
            a = e["atom"]
            kind = "hypervalent-hydride" if "hypervalent" in clause else "atom-form"
            sig = "%s sym=%s h=%d ctx=%d input=%s output=%s" % (kind, a["sym"], a["h"], e["ctx"], e["smiles"], e["out"])
            grp = clause + ("/" + a["sym"] if "hypervalent" in clause else "")
        else:
            sig = "%s input=%s output=%s" % (e["kind"], e["smiles"], e["out"])
            grp = clause + "/" + e["kind"]
        rep.fail(clause, sig, group=grp, detail={k: e[k] for k in e if k not in ("id",)},
                 replay={"smiles": e["smiles"]})
    # output half: no map number in anything rebalance() returns (shared pipeline recording)
    plog, pevents, pbad, (pn, pst) = pipeline_rec.record(tier)
    rep.add_trace_stats(pn, pst)
    pev = {e["id"]: e for e in pevents}
    for eid, clause in pbad:
        if clause == "NoMapInOutput":
            e = pev[eid]
            rep.fail(clause, "rebalance input=%s" % e["argstr"], group=clause,
                     detail={"reaction": e["reaction"], "input_reaction": e["input_reaction"]},
                     replay={"smiles": e["argstr"]})
    rep.extra.update(info)
    rep.extra["model_drift_count"] = drift
    rep.extra["mapped_inputs_in_pipeline_recording"] = sum(1 for e in pevents if e["ev"] == "row" and ":" in e["argstr"])
    ats = [e for e in events.values() if e["ev"] == "atom"]
    rep.sample({k: ats[0][k] for k in ("atom", "ctx", "smiles", "out", "same", "closed")})
    mols = [e for e in events.values() if e["ev"] == "mol" and e["kind"] == "corpus"]
    if mols:
        rep.sample({k: mols[0][k] for k in ("smiles", "out", "same", "closed")})
    rep.assumptions += ["molecule identity = RDKit canonical SMILES per fragment after clearing atom maps; closed-shell = no "
                        "atom with radical electrons (radicals are outside the property's quantifier)",
                        "atom forms that RDKit cannot parse in the rendered context are skipped"]
    return rep.finish()


def replay(path):
    with open(path) as f:
        data = json.load(f)
    print("re-run ./check C15; failing input:", data["replay"])
    return 1
